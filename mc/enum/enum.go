// Package enum is the choice enumerator (engine E1): a harness body calls Choose(n)
// wherever its input or environment has alternatives, and Explore re-runs the body for
// every choice vector in lexicographic (depth-first) order. A recorded vector replays one
// execution exactly; a replay that diverges (out-of-range choice) is a hard error.
package enum

import "fmt"

// C is the chooser handed to a body for one execution.
type C struct {
	prefix []int
	Trail  []int
	arity  []int
	// deviation bounding
	MaxDev int // <0: unbounded
	devs   int
	// sharding
	shardDepth int
	shardK     int
	shardN     int
	shardCtr   *int64
	fresh      int // index from which the current execution is beyond the replayed prefix
}

type skip struct{}

// Divergence is raised when a replayed prefix does not fit the body.
type Divergence struct{ Msg string }

func (d Divergence) Error() string { return d.Msg }

// Choose returns a value in [0,n).
func (c *C) Choose(n int) int {
	if n <= 0 {
		panic(Divergence{fmt.Sprintf("Choose(%d)", n)})
	}
	pos := len(c.Trail)
	v := 0
	if pos < len(c.prefix) {
		v = c.prefix[pos]
		if v >= n {
			panic(Divergence{fmt.Sprintf("replay diverged at position %d: choice %d of %d", pos, v, n)})
		}
	}
	c.Trail = append(c.Trail, v)
	c.arity = append(c.arity, n)
	if c.shardN > 1 && len(c.Trail) == c.shardDepth && pos >= c.fresh {
		// a new shard-prefix: decide whether it belongs to this worker
		idx := *c.shardCtr
		*c.shardCtr = idx + 1
		if int(idx%int64(c.shardN)) != c.shardK {
			panic(skip{})
		}
	}
	return v
}

// Dev is Choose where 0 is the default answer and every other answer costs one deviation.
// When the deviation budget is used up only the default remains.
func (c *C) Dev(n int) int {
	if c.MaxDev >= 0 && c.devs >= c.MaxDev {
		return c.Choose(1)
	}
	v := c.Choose(n)
	if v != 0 {
		c.devs++
	}
	return v
}

// Devs reports deviations taken so far.
func (c *C) Devs() int { return c.devs }

// Pick chooses one of the given strings.
func Pick[T any](c *C, xs []T) T { return xs[c.Choose(len(xs))] }

// Opts configures an exploration.
type Opts struct {
	MaxDev     int // deviation budget for Dev(); <0 unbounded
	ShardDepth int // number of leading choices that define a shard unit (0: no sharding)
	ShardK     int
	ShardN     int
	Limit      int64 // stop after this many executions (0: none); reported as capped
}

// Explore runs body for every choice vector. It returns executions run and whether a cap was hit.
func Explore(o Opts, body func(c *C)) (execs int64, capped bool) {
	var ctr int64
	prefix := []int{}
	fresh := 0
	for {
		c := &C{prefix: prefix, MaxDev: o.MaxDev, shardDepth: o.ShardDepth, shardK: o.ShardK, shardN: o.ShardN, shardCtr: &ctr, fresh: fresh}
		if o.ShardDepth == 0 {
			c.shardN = 0
		}
		skipped := runOne(c, body)
		if !skipped {
			execs++
			if o.Limit > 0 && execs >= o.Limit {
				return execs, true
			}
		}
		i := len(c.Trail) - 1
		for i >= 0 && c.Trail[i]+1 >= c.arity[i] {
			i--
		}
		if i < 0 {
			return execs, false
		}
		prefix = append(append([]int{}, c.Trail[:i]...), c.Trail[i]+1)
		fresh = i
	}
}

func runOne(c *C, body func(c *C)) (skipped bool) {
	defer func() {
		if r := recover(); r != nil {
			if _, ok := r.(skip); ok {
				skipped = true
				return
			}
			panic(r)
		}
	}()
	body(c)
	return false
}

// Replay runs body once with the given vector; a vector longer or shorter than what the
// body consumes is accepted only if every consumed position was in range.
func Replay(vec []int, maxDev int, body func(c *C)) *C {
	c := &C{prefix: vec, MaxDev: maxDev}
	body(c)
	return c
}
