// Package srvx runs the real tacquito.Server.Serve loop over the scripted network and gives the
// explorers (engine E3) the primitives they need: open a connection, deliver bytes, collect what
// was written, stop the server and wait for Serve to return.
package srvx

import (
	"context"
	"fmt"
	"net"
	"sync"
	"time"

	tq "github.com/facebookincubator/tacquito"

	"verif/mc/ref"
	"verif/mc/simnet"
)

// LogCall is one call on the recording logger.
type LogCall struct {
	Level   string
	Msg     string
	Record  map[string]string
	Obscure []string
	SetKeys []string
	Fields  map[string]string
}

// Logger records everything the server asks its logger to emit or retain.
type Logger struct {
	mu    sync.Mutex
	Calls []LogCall
	Keep  bool
	// Tee, when set, receives every call as well (the repository's own logger writing into a buffer, for C18)
	Tee TeeLogger
}

// TeeLogger is the logger interface of the reference server.
type TeeLogger interface {
	Infof(ctx context.Context, format string, args ...interface{})
	Errorf(ctx context.Context, format string, args ...interface{})
	Debugf(ctx context.Context, format string, args ...interface{})
	Record(ctx context.Context, r map[string]string, obscure ...string)
	Set(ctx context.Context, fields map[string]string, keys ...tq.ContextKey) context.Context
}

func (l *Logger) add(c LogCall) {
	if !l.Keep {
		return
	}
	l.mu.Lock()
	l.Calls = append(l.Calls, c)
	l.mu.Unlock()
}

// Infof ...
func (l *Logger) Infof(ctx context.Context, format string, args ...interface{}) {
	if l.Tee != nil {
		l.Tee.Infof(ctx, format, args...)
	}
	if l.Keep {
		l.add(LogCall{Level: "info", Msg: fmt.Sprintf(format, args...)})
	}
}

// Errorf ...
func (l *Logger) Errorf(ctx context.Context, format string, args ...interface{}) {
	if l.Tee != nil {
		l.Tee.Errorf(ctx, format, args...)
	}
	if l.Keep {
		l.add(LogCall{Level: "error", Msg: fmt.Sprintf(format, args...)})
	}
}

// Debugf ...
func (l *Logger) Debugf(ctx context.Context, format string, args ...interface{}) {
	if l.Tee != nil {
		l.Tee.Debugf(ctx, format, args...)
	}
	if l.Keep {
		l.add(LogCall{Level: "debug", Msg: fmt.Sprintf(format, args...)})
	}
}

// Record ...
func (l *Logger) Record(ctx context.Context, r map[string]string, obscure ...string) {
	if l.Keep {
		cp := map[string]string{}
		for k, v := range r {
			cp[k] = v
		}
		l.add(LogCall{Level: "record", Record: cp, Obscure: append([]string{}, obscure...)})
	}
	if l.Tee != nil {
		l.Tee.Record(ctx, r, obscure...) // the caller's own map, as in production
	}
}

// Set is the context-retention call of the handlers' logger interface.
func (l *Logger) Set(ctx context.Context, fields map[string]string, keys ...tq.ContextKey) context.Context {
	if l.Keep {
		cp := map[string]string{}
		for k, v := range fields {
			cp[k] = v
		}
		ks := make([]string, len(keys))
		for i, k := range keys {
			ks[i] = string(k)
		}
		l.add(LogCall{Level: "set", Fields: cp, SetKeys: ks})
	}
	if l.Tee != nil {
		return l.Tee.Set(ctx, fields, keys...)
	}
	return ctx
}

// Take returns and clears recorded calls.
func (l *Logger) Take() []LogCall {
	l.mu.Lock()
	defer l.mu.Unlock()
	c := l.Calls
	l.Calls = nil
	return c
}

// World is one running server over a scripted listener.
type World struct {
	Srv       *tq.Server
	L         *simnet.Listener
	Clock     *simnet.Clock
	Log       *Logger
	ctx       context.Context
	cancel    context.CancelFunc
	done      chan struct{}
	ServeErr  error
	Conns     []*simnet.Conn
	ReturnSeq int64
}

// Start runs Serve in a goroutine and waits until the accept loop is parked.
func Start(sp tq.SecretProvider, lg *Logger, opts ...tq.Option) *World {
	if lg == nil {
		lg = &Logger{}
	}
	clock := &simnet.Clock{}
	w := &World{L: simnet.NewListener(clock), Clock: clock, Log: lg, done: make(chan struct{})}
	w.ctx, w.cancel = context.WithCancel(context.Background())
	w.Srv = tq.NewServer(lg, sp, opts...)
	go func() {
		w.ServeErr = w.Srv.Serve(w.ctx, w.L)
		w.ReturnSeq = clock.Tick()
		close(w.done)
	}()
	w.L.WaitParked()
	return w
}

// HangTimeout bounds every wait for the server side; exceeding it is reported as a hang, never silently.
var HangTimeout = 90 * time.Second

// Open queues a new connection from the given remote address and waits until the server either
// parks in Read on it or closes it.
func (w *World) Open(remote net.Addr) (*simnet.Conn, error) {
	c := simnet.NewConn(w.Clock, remote)
	// connections the server has closed are of no further use to Stop; dropping them keeps a world that serves millions
	// of histories from holding every event log it ever recorded
	live := w.Conns[:0]
	for _, o := range w.Conns {
		if !o.Closed() {
			live = append(live, o)
		}
	}
	for i := len(live); i < len(w.Conns); i++ {
		w.Conns[i] = nil
	}
	w.Conns = append(live, c)
	w.L.Push(c)
	if _, ok := c.WaitIdleTimeout(HangTimeout); !ok {
		return c, fmt.Errorf("server side did not become idle after accept")
	}
	return c, nil
}

// Deliver feeds chunks and waits for the server to go idle on that connection (or close it).
func (w *World) Deliver(c *simnet.Conn, chunks ...[]byte) (closed bool, err error) {
	c.Feed(chunks...)
	cl, ok := c.WaitIdleTimeout(HangTimeout)
	if !ok {
		return false, fmt.Errorf("server side did not become idle after delivery")
	}
	return cl, nil
}

// DeliverErr feeds an error (EOF/timeout) and waits.
func (w *World) DeliverErr(c *simnet.Conn, e error) (closed bool, err error) {
	c.FeedErr(e)
	cl, ok := c.WaitIdleTimeout(HangTimeout)
	if !ok {
		return false, fmt.Errorf("server side did not become idle after injected error")
	}
	return cl, nil
}

// Stop cancels the context, lets the accept loop observe it, closes every client side (so parked
// reads end, as a deadline or a client close would) and waits for Serve to return.
func (w *World) Stop() error {
	w.cancel()
	w.L.PushTimeout()
	for _, c := range w.Conns {
		c.ReleaseWrites()
		if !c.Closed() {
			c.FeedEOF()
		}
	}
	select {
	case <-w.done:
		return nil
	case <-time.After(HangTimeout):
		return fmt.Errorf("Serve did not return after cancellation")
	}
}

// Done exposes Serve's completion.
func (w *World) Done() <-chan struct{} { return w.done }

// Cancel cancels the serve context only.
func (w *World) Cancel() { w.cancel() }

// WirePacket is one packet parsed from the server's output stream.
type WirePacket struct {
	H    ref.Header
	Body []byte // as on the wire (possibly obfuscated)
}

// ParseStream splits bytes written by the server into packets by their length fields.
// rest holds trailing bytes that do not form a complete packet.
func ParseStream(b []byte) (pkts []WirePacket, rest []byte) {
	for len(b) >= 12 {
		h := ref.DecodeHeader(b)
		if uint64(h.Length) > uint64(len(b)-12) {
			break
		}
		pkts = append(pkts, WirePacket{H: h, Body: b[12 : 12+h.Length]})
		b = b[12+h.Length:]
	}
	return pkts, b
}

// FixedSecret is a SecretProvider with one key and one handler for every address.
type FixedSecret struct {
	Key []byte
	H   tq.Handler
}

// Get ...
func (f FixedSecret) Get(ctx context.Context, remote net.Addr) ([]byte, tq.Handler, error) {
	return f.Key, f.H, nil
}

// Addr4 is a convenient TCP address.
func Addr4(a, b, c, d byte, port int) net.Addr {
	return &net.TCPAddr{IP: net.IPv4(a, b, c, d), Port: port}
}
