package checks

import (
	"bytes"
	"context"
	"encoding/json"
	"fmt"
	"strings"
	"time"

	tq "github.com/facebookincubator/tacquito"
	"github.com/facebookincubator/tacquito/cmds/server/config"
	"github.com/facebookincubator/tacquito/cmds/server/config/accounters/local"

	"verif/mc/enum"
	"verif/mc/evid"
	"verif/mc/ref"
	"verif/mc/simnet"
	"verif/mc/srvx"
)

// C12: acknowledged accounting records are written once, before the reply, and say what the client sent.

func init() {
	Registry["C12"] = &Check{
		Spec: func(tier string) evid.Spec {
			return evid.Spec{ID: "C12", Level: "exploration", Exhaustive: true,
				Rule: "plane 1 (direct call of the log-backed accounter with a recording sink and Response): every flag octet x seq{1,3,5} x enum profiles; plane 1b: every truncation and every raised length octet (+1,+2,+10,+200) of 8 well-formed requests (0..3 arguments) - bodies whose announced field lengths exceed the octets that follow must be answered ERROR with no sink record; plane 1c: 60 and 255 arguments of 255 octets of 'a', '<' and 0x01 (records far beyond 64 KiB once encoded); plane 2: every 4-tuple of content tokens " +
					"{plain,%,%s%d,100%,%!v(,\",\\,\\n,\\x00,\\x7f,'a b',<&>,255x%, literal \\u003c / \\u0026\\u003e / \\\\n\\\" / \\u00e9 / &lt;} in user/port/rem_addr/argument, argument counts {0,1,2,255}; plane 3 (full reference server over the scripted network): " +
					"all arrival orders of length <= 3 over {start,stop,watchdog@1,watchdog-update@3,bad-flags,undecodable} x {fresh session id, the previous event's session id with the next client sequence number} x users {with accounter, via group, unknown, without accounter}, " +
					"checking that the sink call precedes the reply's write on the global event clock; plane 5: the sink hangs in its first write for three seconds of real time while two connections send records - no SUCCESS may be on the wire for a record the sink has not been handed, and after the sink returns both are acknowledged with exactly one record each; plane 4 (engine E2): two connections sending accounting records concurrently under the controlled scheduler with statement-level points in the accounter, every schedule with <= 1 (quick) / 2 (thorough) deviations. Oracle: a SUCCESS reply implies exactly one sink call whose rendered line (format and arguments as log.Logger would print them) " +
					"JSON-decodes to exactly the request's fields; undecodable / stop+watchdog / unknown user / no accounter are answered ERROR. distinct_nontrivial = distinct requests answered SUCCESS (by content hash)",
				Assumptions: []string{"'cannot be decoded' is taken as: the announced user/port/rem_addr/argument lengths exceed the octets present; a body that ends inside the fixed part or the argument-length table (which the library decodes with zero-length arguments) is not judged", "the sink is rendered with fmt.Sprintf(format, args...), which is what log.Logger.Printf does"}}
		},
		Workers:      constInt(16, 16),
		SchedWorkers: constInt(1, 1),
		Run: func(c *Ctx) {
			if c.Param == "sched" {
				schedRun(c)
				return
			}
			c12Run(c)
		},
		Replay: c12Replay,
		Post:   schedPost,
	}
}

type c12Case struct {
	Msg  msgJSON `json:"msg"`
	Seq  int     `json:"seq"`
	Hist []c12Ev `json:"history,omitempty"`
	// Raw: a request body (hex) that is NOT laid out as an accounting request (plane 1b)
	Raw string `json:"raw_body,omitempty"`
}

// c12Raw hands the accounter a body that cannot be decoded - a well-formed request cut short or with a length octet
// that announces more than follows: it must be answered ERROR and nothing may reach the sink.
func c12Raw(c *Ctx, h tq.Handler, sink *sinkRec, body []byte, seq int) {
	if _, cl := ref.AcctRequest.Decode(body); cl != ref.Inconsistent {
		// only bodies whose announced field lengths exceed the octets that follow are judged: a body that stops inside
		// its fixed part or its length table (the library reads the missing length octets as zero) is left open
		return
	}
	c.R.Eval()
	c.R.Distinct(evid.Hash("raw", body, seq))
	cs := c12Case{Raw: fmt.Sprintf("%x", body), Seq: seq}
	sink.take()
	resp := &recResp{}
	req := tq.Request{Header: tq.Header{Version: tq.Version{MajorVersion: 0xc}, Type: tq.Accounting, SeqNo: tq.SequenceNumber(seq), SessionID: 12}, Body: append([]byte{}, body...), Context: context.Background()}
	if p := safely(func() { h.Handle(resp, req) }); p != "" {
		c.R.Violate("raw/panic", "accounter panicked on an undecodable body: "+p, cs)
		return
	}
	calls := sink.take()
	status := -1
	if len(resp.replies) == 1 {
		if rep, ok := resp.replies[0].(*tq.AcctReply); ok {
			status = int(rep.Status)
		}
	}
	if status != int(tq.AcctReplyStatusError) || len(calls) != 0 {
		c.R.ViolateMin("raw/undecodable-acknowledged", fmt.Sprintf("a body that is not laid out as an accounting request (%d octets: %s) was answered with %d replies, status %d, and %d sink records; it must be answered ERROR and leave no record",
			len(body), hx(body), len(resp.replies), status, len(calls)), cs, len(body))
	}
}

type c12Ev struct {
	Kind string `json:"kind"` // start stop wd wdu badflags junk
	Sid  int    `json:"sid"`
	User string `json:"user"`
	// Follow: the request re-uses the previous event's session id with the next client sequence number
	Follow bool `json:"follow,omitempty"`
}

// recorded accounting line, as decoded from JSON
type acctLine struct {
	Flags   int
	Method  int
	PrivLvl int
	Type    int
	Service int
	User    string
	Port    string
	RemAddr string
	Args    []string
}

// checkRecord compares a rendered sink line with the request fields; returns "" when identical.
func checkRecord(line string, m *ref.Msg) string {
	var got acctLine
	if err := json.Unmarshal([]byte(line), &got); err != nil {
		return fmt.Sprintf("sink line is not the JSON record: %v: %q", err, trunc(line, 200))
	}
	if got.Flags != m.N["flags"] || got.Method != m.N["authen_method"] || got.PrivLvl != m.N["priv_lvl"] || got.Type != m.N["authen_type"] || got.Service != m.N["authen_service"] {
		return fmt.Sprintf("numeric fields differ: %+v vs %v", got, m.N)
	}
	if got.User != string(m.S["user"]) {
		return fmt.Sprintf("user differs: %q vs %q", trunc(got.User, 80), trunc(string(m.S["user"]), 80))
	}
	if got.Port != string(m.S["port"]) {
		return fmt.Sprintf("port differs: %q vs %q", trunc(got.Port, 80), trunc(string(m.S["port"]), 80))
	}
	if got.RemAddr != string(m.S["rem_addr"]) {
		return fmt.Sprintf("rem_addr differs: %q vs %q", trunc(got.RemAddr, 80), trunc(string(m.S["rem_addr"]), 80))
	}
	if len(got.Args) != len(m.Args) {
		return fmt.Sprintf("argument count differs: %d vs %d", len(got.Args), len(m.Args))
	}
	for i := range got.Args {
		if got.Args[i] != string(m.Args[i]) {
			return fmt.Sprintf("argument %d differs: %q vs %q", i, trunc(got.Args[i], 80), trunc(string(m.Args[i]), 80))
		}
	}
	return ""
}

func trunc(s string, n int) string {
	if len(s) > n {
		return s[:n] + "…"
	}
	return s
}

// successExpected: which (flags, seq) the accounter acknowledges, per its documented reply-by-flag rule.
func acctAcks(flags, seq int) bool {
	switch flags {
	case 0x02, 0x04:
		return true
	case 0x08:
		return seq == 1
	case 0x0a:
		return seq >= 3
	}
	return false
}

func c12Direct(c *Ctx, h tq.Handler, sink *sinkRec, m *ref.Msg, seq int) {
	c.R.Eval()
	cs := c12Case{Msg: msgToJSON(ref.AcctRequest, m), Seq: seq}
	body, ok := ref.AcctRequest.Encode(m)
	if !ok {
		panic("unrepresentable accounting request in generator")
	}
	fail := func(kind, what string) {
		c.R.Violate(kind, fmt.Sprintf("%s; flags=%#x seq=%d user=%q port=%q rem=%q args=%d", what, m.N["flags"], seq, trunc(string(m.S["user"]), 40), trunc(string(m.S["port"]), 40), trunc(string(m.S["rem_addr"]), 40), len(m.Args)), cs)
	}
	sink.take()
	resp := &recResp{}
	req := tq.Request{Header: tq.Header{Version: tq.Version{MajorVersion: 0xc}, Type: tq.Accounting, SeqNo: tq.SequenceNumber(seq), SessionID: 12}, Body: body, Context: context.Background()}
	if p := safely(func() { h.Handle(resp, req) }); p != "" {
		fail("panic", "accounter panicked: "+p)
		return
	}
	calls := sink.take()
	if len(resp.replies) != 1 {
		fail("reply-count", fmt.Sprintf("accounter replied %d times", len(resp.replies)))
		return
	}
	rep, okT := resp.replies[0].(*tq.AcctReply)
	if !okT {
		fail("reply-type", fmt.Sprintf("reply is %T", resp.replies[0]))
		return
	}
	valid := validBySpec(specByName("AcctRequest"), m)
	if !valid {
		if rep.Status != tq.AcctReplyStatusError {
			fail("invalid-acknowledged", "a request with contradictory flags / invalid fields was not answered ERROR")
		}
		return
	}
	// contradictory flags (RFC 8907 section 7.2: start with stop, stop with watchdog) are answered ERROR even where the
	// library's own validation lets the octet through
	if fl := m.N["flags"]; (fl&0x02 != 0 && fl&0x04 != 0) || (fl&0x04 != 0 && fl&0x08 != 0) {
		if rep.Status != tq.AcctReplyStatusError {
			fail("contradictory-flags-acknowledged", fmt.Sprintf("flags %#x mark the record as start and stop (or stop and watchdog) at once and were answered status %d", fl, rep.Status))
		}
		return
	}
	if rep.Status == tq.AcctReplyStatusSuccess {
		c.R.Distinct(evid.Hash(body, seq))
		if len(calls) != 1 {
			fail("sink-count", fmt.Sprintf("SUCCESS with %d sink calls", len(calls)))
			return
		}
		if d := checkRecord(calls[0].Rendered(), m); d != "" {
			fail("record-differs", "the record handed to the sink does not say what the client sent: "+d)
		}
	}
	// the accounter's documented acknowledgement rule (not a must of the statement for ERROR vs SUCCESS beyond validity,
	// but a SUCCESS outside it or an ERROR inside it would silently change which records are acknowledged)
	if acctAcks(m.N["flags"], seq) != (rep.Status == tq.AcctReplyStatusSuccess) {
		c.R.Count("ack-rule-differs", 1)
	}
}

var c12Tokens = []string{"plain", "%", "%s%d", "100%", "%!v(", `"`, `\`, "\n", "\x00", "\x7f", "a b", "<&>", strings.Repeat("%", 255),
	// text that looks like the escapes an encoder produces: must come back as the same six characters
	`\u003c`, `x\u0026\u003e`, `\\n\"`, `\u00e9`, "&lt;"}

func c12Run(c *Ctx) {
	sink := &sinkRec{}
	acct, err := local.New(&srvx.Logger{}, local.SetLogSink(sink))
	if err != nil {
		panic(err)
	}
	h := acct.New(nil)
	s := specByName("AcctRequest")
	job := 0
	// plane 1: flags x seq x enum profiles
	for fl := 0; fl < 256; fl++ {
		job++
		if !c.Mine(job) {
			continue
		}
		for _, seq := range []int{1, 3, 5} {
			for ep := 0; ep < 3; ep++ {
				vals := []int{fl, s.Enums[1].Valid[ep*3%len(s.Enums[1].Valid)], s.Enums[2].Valid[ep*7%16], s.Enums[3].Valid[ep*2%7], s.Enums[4].Valid[ep*4%10]}
				for _, shape := range []argShape{nil, {9}, {0, 17}} {
					c12Direct(c, h, sink, build(s, vals, []int{4, 5, 6}, shape), seq)
				}
			}
		}
	}
	// plane 1b: undecodable bodies - every truncation of a corpus of well-formed requests and every raised length octet
	{
		var corpus [][]byte
		for _, shape := range []argShape{nil, {9}, {2, 33}, {0, 17, 5}} {
			for _, lens := range [][]int{{0, 0, 0}, {4, 5, 6}} {
				b, _ := ref.AcctRequest.Encode(build(s, []int{2, 6, 1, 1, 1}, lens, shape))
				corpus = append(corpus, b)
			}
		}
		for ci, b := range corpus {
			job++
			if !c.Mine(job) {
				continue
			}
			for k := 1; k < len(b); k++ {
				c12Raw(c, h, sink, b[:len(b)-k], 1)
			}
			argc := int(b[8])
			for off := 5; off < 9+argc; off++ {
				for _, d := range []int{1, 2, 10, 200} {
					x := append([]byte{}, b...)
					if int(x[off])+d > 255 {
						continue
					}
					x[off] += byte(d)
					c12Raw(c, h, sink, x, 1+2*(ci%2))
				}
			}
		}
	}
	// plane 1c: the largest records a request can produce (255 arguments of 255 octets, plain and of characters a JSON
	// encoder expands six-fold): still one record, still everything in it
	job++
	if c.Mine(job) {
		for _, ch := range []byte{'a', '<', 0x01} {
			for _, cnt := range []int{60, 255} {
				m := ref.NewMsg()
				m.N["flags"], m.N["authen_method"], m.N["priv_lvl"], m.N["authen_type"], m.N["authen_service"] = 2, 6, 1, 1, 1
				m.S["user"], m.S["port"], m.S["rem_addr"] = []byte("acct"), []byte("tty1"), []byte("10.9.9.9")
				for i := 0; i < cnt; i++ {
					a := bytes.Repeat([]byte{ch}, 255)
					a[0], a[1] = byte('a'+i%26), '='
					m.Args = append(m.Args, a)
				}
				c12Direct(c, h, sink, m, 1)
			}
		}
	}
	// plane 2: content tokens
	n := 0
	for _, tu := range c12Tokens {
		for _, tp := range c12Tokens {
			job++
			if !c.Mine(job) {
				continue
			}
			for _, tr := range c12Tokens {
				for _, ta := range c12Tokens {
					for _, cnt := range []int{0, 1, 2, 255} {
						if cnt == 255 && !(tr == "plain" || tr == "%") {
							continue
						}
						m := ref.NewMsg()
						m.N["flags"], m.N["authen_method"], m.N["priv_lvl"], m.N["authen_type"], m.N["authen_service"] = 2, 6, 1, 1, 1
						m.S["user"], m.S["port"], m.S["rem_addr"] = []byte(tu), []byte(tp), []byte(tr)
						for i := 0; i < cnt; i++ {
							if i%2 == 0 {
								m.Args = append(m.Args, []byte(ta))
							} else {
								m.Args = append(m.Args, []byte("cmd="+ta[:min(len(ta), 200)]))
							}
						}
						c12Direct(c, h, sink, m, 1)
						n++
						if n%15013 == 0 {
							c.R.SampleCap(4, map[string]interface{}{"plane": "content", "user": tu, "port": tp, "rem_addr": tr, "arg": trunc(ta, 20), "arg_count": cnt})
						}
					}
				}
			}
		}
	}
	// plane 5: the log destination hangs
	job++
	if c.Mine(job) {
		c12StalledSink(c)
	}
	// plane 3: full server, orders and entry paths
	c12Server(c, &job)
}

// c12StalledSink: the log destination hangs in its first write. While it does, no request may be acknowledged whose record
// has not been handed to the sink; when it comes back, everything is as always.
func c12StalledSink(c *Ctx) {
	c.R.Eval()
	cs := c12Case{Hist: []c12Ev{{Kind: "stalled-sink"}}}
	c.Cur(cs)
	rw, err := newRWorld(c12Config(), nil, false)
	if err != nil {
		panic(err)
	}
	defer rw.stop()
	gate := make(chan struct{})
	rw.Sink.take()
	rw.Sink.setGate(gate)
	released := false
	release := func() {
		if !released {
			released = true
			rw.Sink.setGate(nil)
			close(gate)
		}
	}
	defer release()
	mk := func(user, task string, flags int, sid uint32) (*ref.Msg, []byte) {
		m := ref.NewMsg()
		m.N["flags"], m.N["authen_method"], m.N["priv_lvl"], m.N["authen_type"], m.N["authen_service"] = flags, 6, 1, 1, 1
		m.S["user"], m.S["port"], m.S["rem_addr"] = []byte(user), []byte("tty1"), []byte("10.9.9.9")
		m.Args = [][]byte{[]byte("task_id=" + task)}
		body, _ := ref.AcctRequest.Encode(m)
		return m, ref.Packet(ref.Header{Version: 0xc0, Type: 3, Seq: 1, Session: sid}, []byte("acct-key"), body)
	}
	msgs := make([]*ref.Msg, 2)
	conns := make([]*simnet.Conn, 2)
	for i := range conns {
		cn, err := rw.W.Open(srvx.Addr4(10, 1, 2, byte(10+i), 1212))
		if err != nil {
			c.Abort("hang", err.Error(), cs)
		}
		conns[i] = cn
	}
	var w0, w1 []byte
	msgs[0], w0 = mk("acct", "100", 2, 0x5a11)
	msgs[1], w1 = mk("viagroup", "200", 4, 0x5a12)
	conns[0].Feed(w0)
	for i := 0; i < 500 && len(rw.Sink.snapshot()) == 0; i++ {
		time.Sleep(10 * time.Millisecond)
	}
	conns[1].Feed(w1)
	time.Sleep(3 * time.Second) // longer than any plausible "give up waiting for the log" allowance; on code that waits for the sink nothing happens meanwhile
	judge := func(when string) bool {
		calls := rw.Sink.snapshot()
		for i, cn := range conns {
			pk, _ := srvx.ParseStream(cn.Peek())
			for _, p := range pk {
				rm, cl := ref.AcctReply.Decode(ref.Obfuscate(p.H, []byte("acct-key"), p.Body))
				if cl != ref.Exact || rm.N["status"] != 1 {
					continue
				}
				n := 0
				for _, cl := range calls {
					if checkRecord(cl.Rendered(), msgs[i]) == "" {
						n++
					}
				}
				if n != 1 {
					c.R.Violate("stalled-sink/acknowledged-without-record", fmt.Sprintf("%s: request %d was answered SUCCESS while the sink had been handed %d records saying what it sent (sink calls so far: %d)", when, i+1, n, len(calls)), cs)
					return false
				}
			}
		}
		return true
	}
	if !judge("while the log destination hangs in its first write") {
		return
	}
	release()
	for _, cn := range conns {
		if _, ok := cn.WaitIdleTimeout(srvx.HangTimeout); !ok {
			c.Abort("hang", "the server did not finish the accounting requests after the log destination came back", cs)
		}
	}
	c.R.Trans(2)
	if judge("after the log destination came back") {
		c.R.Trace()
	}
	for _, cn := range conns {
		if !cn.Closed() {
			cn.FeedEOF()
		}
	}
}

func c12Config() config.ServerConfig {
	return config.ServerConfig{
		Secrets: []config.SecretConfig{scopeCfg("s1", "acct-key", "10.0.0.0/8")},
		Users: []config.User{
			{Name: "acct", Scopes: []string{"s1"}, Accounter: fileAcct(), Authenticator: bcryptAuthn("pw")},
			{Name: "viagroup", Scopes: []string{"s1"}, Groups: []config.Group{{Name: "g"}, {Name: "g2", Accounter: fileAcct()}}},
			{Name: "noacct", Scopes: []string{"s1"}, Authenticator: bcryptAuthn("pw")},
		},
	}
}

func c12Server(c *Ctx, job *int) {
	kinds := []string{"start", "stop", "wd", "wdu", "badflags", "junk"}
	users := []string{"acct", "viagroup", "noacct", "nobody"}
	var alpha []c12Ev
	for _, k := range kinds {
		for _, follow := range []bool{false, true} {
			for _, u := range users {
				alpha = append(alpha, c12Ev{Kind: k, User: u, Follow: follow})
			}
		}
	}
	rw, err := newRWorld(c12Config(), nil, false)
	if err != nil {
		panic(err)
	}
	defer rw.stop()
	depth := tierPick(c.Quick, 2, 3)
	enum.Explore(enum.Opts{MaxDev: -1, ShardDepth: 1, ShardK: c.K, ShardN: c.N}, func(ch *enum.C) {
		var hist []c12Ev
		for d := 0; d < depth; d++ {
			hist = append(hist, alpha[ch.Choose(len(alpha))])
		}
		c12History(c, rw, hist)
	})
}

func c12History(c *Ctx, rw *rworld, hist []c12Ev) {
	c.R.Eval()
	c.Cur(c12Case{Hist: hist})
	conn, err := rw.W.Open(srvx.Addr4(10, 1, 2, 3, 1212))
	if err != nil {
		c.Abort("hang", err.Error(), c12Case{Hist: hist})
	}
	defer func() {
		if !conn.Closed() {
			conn.FeedEOF()
		}
	}()
	lastSess, lastSeq := uint32(0), 0
	fail := func(kind, what string) {
		c.R.ViolateMin("server/"+kind, fmt.Sprintf("%s; history %+v", what, hist), c12Case{Hist: hist}, len(hist))
	}
	for i, e := range hist {
		// each event is a complete single-packet accounting session (wdu must arrive at seq >= 3); a follow event re-uses
		// the previous event's session id with the next client sequence number, which the server - having finished
		// that session with its reply - must treat like any other first packet
		seq, sess := 1, uint32(0xacc0+16*i)
		if e.Kind == "wdu" {
			seq = 3
		}
		if e.Follow && i > 0 {
			seq, sess = lastSeq+2, lastSess
		}
		lastSess, lastSeq = sess, seq
		m := ref.NewMsg()
		m.N["authen_method"], m.N["priv_lvl"], m.N["authen_type"], m.N["authen_service"] = 6, 1, 1, 1
		m.S["user"], m.S["port"], m.S["rem_addr"] = []byte(e.User), []byte("tty%d"), []byte("10.9.9.9")
		m.Args = [][]byte{[]byte("task_id=7"), []byte("cmd=show 100% <cr>")}
		switch e.Kind {
		case "start":
			m.N["flags"] = 2
		case "stop":
			m.N["flags"] = 4
		case "wd":
			m.N["flags"] = 8
		case "wdu":
			m.N["flags"] = 0x0a
		case "badflags":
			m.N["flags"] = 0x0c
		}
		body, _ := ref.AcctRequest.Encode(m)
		if e.Kind == "junk" {
			body = []byte{2, 6, 1, 1, 1, 0, 0, 0, 0, 9, 9} // consistent lengths, trailing bytes, decodes? keep it undecodable: bad enum
			body[1] = 0x77
		}
		h := ref.Header{Version: 0xc0, Type: 3, Seq: byte(seq), Session: sess}
		rw.Sink.take()
		t0 := rw.W.Clock.Now()
		closed, err := rw.W.Deliver(conn, ref.Packet(h, []byte("acct-key"), body))
		if err != nil {
			c.Abort("hang", err.Error(), c12Case{Hist: hist})
		}
		c.R.Trans(1)
		out := conn.Take()
		calls := rw.Sink.take()
		pk, rest := srvx.ParseStream(out)
		if closed || len(pk) != 1 || len(rest) != 0 {
			fail("one-reply", fmt.Sprintf("event %d (%+v): closed=%v packets=%d stray=%d", i, e, closed, len(pk), len(rest)))
			return
		}
		rb := ref.Obfuscate(pk[0].H, []byte("acct-key"), pk[0].Body)
		rm, cl := ref.AcctReply.Decode(rb)
		if cl != ref.Exact {
			fail("reply-shape", fmt.Sprintf("event %d: reply is not an accounting REPLY", i))
			return
		}
		status := rm.N["status"]
		mustError := e.Kind == "badflags" || e.Kind == "junk" || e.User == "noacct" || e.User == "nobody"
		if mustError && status != 2 {
			fail("acknowledged-"+e.Kind+"-"+e.User, fmt.Sprintf("event %d (%+v) must be answered ERROR, got status %d", i, e, status))
			return
		}
		if status == 1 {
			c.R.Distinct(evid.Hash("srv", body, h.Seq))
			if len(calls) != 1 {
				fail("sink-count", fmt.Sprintf("event %d (%+v): SUCCESS with %d sink calls", i, e, len(calls)))
				return
			}
			if d := checkRecord(calls[0].Rendered(), m); d != "" {
				fail("record-differs", fmt.Sprintf("event %d (%+v): %s", i, e, d))
				return
			}
			// order: the sink call must precede the write of the reply
			var wseq int64
			for _, ev := range conn.Events() {
				if ev.Kind == simnet.EvWrite && ev.Seq > t0 {
					wseq = ev.Seq
					break
				}
			}
			if !(calls[0].Seq > t0 && calls[0].Seq < wseq) {
				fail("order", fmt.Sprintf("event %d (%+v): sink call at clock %d, reply written at clock %d", i, e, calls[0].Seq, wseq))
				return
			}
		}
	}
	c.R.Trace()
}

func c12Replay(c *Ctx, raw json.RawMessage) {
	var cs c12Case
	if err := json.Unmarshal(raw, &cs); err != nil {
		panic(err)
	}
	if len(cs.Hist) == 1 && cs.Hist[0].Kind == "stalled-sink" {
		c12StalledSink(c)
		return
	}
	if len(cs.Hist) > 0 {
		rw, err := newRWorld(c12Config(), nil, false)
		if err != nil {
			panic(err)
		}
		defer rw.stop()
		c12History(c, rw, cs.Hist)
		return
	}
	sink := &sinkRec{}
	acct, _ := local.New(&srvx.Logger{}, local.SetLogSink(sink))
	if cs.Raw != "" {
		var body []byte
		fmt.Sscanf(cs.Raw, "%x", &body)
		c12Raw(c, acct.New(nil), sink, body, cs.Seq)
		return
	}
	_, m := msgFromJSON(cs.Msg)
	c12Direct(c, acct.New(nil), sink, m, cs.Seq)
}
