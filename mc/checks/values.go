package checks

import (
	"verif/mc/ref"
)

// fieldSpec describes one text field of a layout.
type fieldSpec struct {
	Name  string
	Wide  bool // 16-bit length on the wire
	ASCII bool // encoder accepts only 7-bit bytes
	Tag   byte
}

// layoutSpec is the value space of one body type as the library's own validation rules define it.
type layoutSpec struct {
	L       ref.Layout
	Enums   []enumSpec
	Texts   []fieldSpec
	HasArgs bool
	ArgMin  int // minimum argument length accepted (2 for authorization, 0 for accounting)
}

type enumSpec struct {
	Name    string
	Valid   []int
	Invalid []int
	Small   []int // reduced domain for quick runs (subset of Valid)
}

func rng(a, b int) []int {
	var out []int
	for i := a; i <= b; i++ {
		out = append(out, i)
	}
	return out
}

var (
	privAll   = rng(0, 15)
	privSmall = []int{0, 1, 15}
	methods   = []int{0, 1, 2, 3, 4, 5, 6, 8, 0x10}
	services  = rng(0, 9)
	flagsAll  = rng(0, 255)
	flagsSm   = []int{0, 1, 2, 0x80, 0xff}
)

func acctFlags(all bool) []int {
	var out []int
	for f := 0; f < 256; f++ {
		if f&0x04 != 0 && f&0x08 != 0 {
			continue
		}
		if !all && f > 0x10 && f != 0x80 && f != 0xf3 {
			continue
		}
		out = append(out, f)
	}
	return out
}

var layoutSpecs = []layoutSpec{
	{L: ref.AuthenStart,
		Enums: []enumSpec{
			{"action", []int{1, 2, 4}, []int{0, 3, 5, 8, 255}, nil},
			{"priv_lvl", privAll, []int{16, 255}, privSmall},
			{"authen_type", rng(1, 6), []int{0, 7, 255}, nil},
			{"authen_service", services, []int{10, 255}, nil}},
		Texts: []fieldSpec{{"user", false, true, 'u'}, {"port", false, true, 'p'}, {"rem_addr", false, true, 'r'}, {"data", false, false, 'd'}}},
	{L: ref.AuthenReply,
		Enums: []enumSpec{
			{"status", rng(1, 7), []int{0, 8, 255}, nil},
			{"flags", flagsAll, nil, flagsSm}},
		Texts: []fieldSpec{{"server_msg", true, false, 'm'}, {"data", true, false, 'd'}}},
	{L: ref.AuthenContinue,
		Enums: []enumSpec{{"flags", flagsAll, nil, flagsSm}},
		Texts: []fieldSpec{{"user_msg", true, true, 'm'}, {"data", true, false, 'd'}}},
	{L: ref.AuthorRequest,
		Enums: []enumSpec{
			{"authen_method", methods, []int{7, 9, 0x11, 255}, nil},
			{"priv_lvl", privAll, []int{16, 255}, privSmall},
			{"authen_type", rng(0, 6), []int{7, 255}, nil},
			{"authen_service", services, []int{10, 255}, nil}},
		Texts:   []fieldSpec{{"user", false, true, 'u'}, {"port", false, true, 'p'}, {"rem_addr", false, true, 'r'}},
		HasArgs: true, ArgMin: 2},
	{L: ref.AuthorReply,
		Enums:   []enumSpec{{"status", []int{1, 2, 0x10, 0x11}, []int{0, 3, 0x12, 255}, nil}},
		Texts:   []fieldSpec{{"server_msg", true, true, 'm'}, {"data", true, true, 'd'}},
		HasArgs: true, ArgMin: 2},
	{L: ref.AcctRequest,
		Enums: []enumSpec{
			{"flags", acctFlags(true), []int{0x0c, 0x0e, 0xff}, acctFlags(false)},
			{"authen_method", methods, []int{7, 9, 0x11, 255}, nil},
			{"priv_lvl", privAll, []int{16, 255}, privSmall},
			{"authen_type", rng(0, 6), []int{7, 255}, nil},
			{"authen_service", services, []int{10, 255}, nil}},
		Texts:   []fieldSpec{{"user", false, true, 'u'}, {"port", false, true, 'p'}, {"rem_addr", false, true, 'r'}},
		HasArgs: true, ArgMin: 0},
	{L: ref.AcctReply,
		Enums: []enumSpec{{"status", []int{1, 2}, []int{0, 3, 255}, nil}},
		Texts: []fieldSpec{{"server_msg", true, true, 'm'}, {"data", true, true, 'd'}}},
}

func specByName(n string) layoutSpec {
	for _, s := range layoutSpecs {
		if s.L.Name == n {
			return s
		}
	}
	panic(n)
}

// fill makes n position-dependent bytes tagged by the field, 7-bit only when ascii.
func fill(tag byte, n int, ascii bool) []byte {
	out := make([]byte, n)
	for i := range out {
		if ascii {
			out[i] = 0x21 + byte((i*7+int(tag))%94)
		} else {
			out[i] = byte(i*13+int(tag)) | byte((i&1)<<7)
		}
	}
	if n > 0 {
		out[0] = tag
	}
	return out
}

// argv makes an argument of n bytes that looks like attr=value and depends on its index.
func argv(i, n int) []byte {
	out := make([]byte, n)
	for j := range out {
		out[j] = 0x30 + byte((i*3+j*5)%75)
	}
	if n >= 2 {
		out[0] = 'a' + byte(i%26)
		out[1] = '='
	}
	// some arguments begin or end with white space: legal ASCII that an encoder must carry verbatim
	if n >= 4 {
		switch i % 5 {
		case 1:
			out[n-1] = ' '
		case 2:
			out[0] = ' '
		case 3:
			out[n-1] = '\n'
		case 4:
			out[n-2], out[n-1] = '\t', ' '
		}
	}
	return out
}

// argShape is a list of argument lengths.
type argShape []int

func rep(n, l int) argShape {
	s := make(argShape, n)
	for i := range s {
		s[i] = l
	}
	return s
}

func argShapes(min int, thorough bool) []argShape {
	s := []argShape{nil, {2}, {255}, {2, 255}, rep(255, 2), rep(255, 255), {9, 8, 7, 6, 5}}
	if min == 0 {
		s = append(s, argShape{0}, argShape{0, 1, 0}, rep(255, 0))
	}
	if thorough {
		s = append(s, argShape{3, 4, 5, 6, 7}, rep(16, 17), rep(254, 3))
	}
	return s
}

func mkArgs(shape argShape) [][]byte {
	if shape == nil {
		return nil
	}
	out := make([][]byte, len(shape))
	for i, n := range shape {
		out[i] = argv(i, n)
	}
	return out
}

var len8 = []int{0, 1, 2, 127, 254, 255}
var len16 = []int{0, 1, 255, 256, 65535}
var len8T = []int{0, 1, 2, 3, 15, 16, 17, 127, 128, 254, 255}
var len16T = []int{0, 1, 2, 255, 256, 257, 4095, 4096, 32767, 32768, 65534, 65535}

// forEachCombo enumerates the cartesian product of the index ranges.
func forEachCombo(sizes []int, f func(idx []int) bool) {
	idx := make([]int, len(sizes))
	for _, s := range sizes {
		if s == 0 {
			return
		}
	}
	for {
		if !f(idx) {
			return
		}
		i := len(idx) - 1
		for i >= 0 {
			idx[i]++
			if idx[i] < sizes[i] {
				break
			}
			idx[i] = 0
			i--
		}
		if i < 0 {
			return
		}
	}
}

// lengthProfiles are the three fixed length profiles used while the enum dimensions are swept.
func lengthProfile(s layoutSpec, p int) (lens []int, shape argShape) {
	for i := range s.Texts {
		switch p {
		case 0:
			lens = append(lens, 0)
		case 1:
			lens = append(lens, 3+i)
		default:
			if s.Texts[i].Wide {
				lens = append(lens, 300+i)
			} else {
				lens = append(lens, 255-i)
			}
		}
	}
	if s.HasArgs {
		switch p {
		case 0:
			shape = nil
		case 1:
			shape = argShape{5, 9}
		default:
			shape = argShape{255, 2, 77}
		}
	}
	return
}

// build assembles a message from chosen enum values, text lengths and an argument shape.
func build(s layoutSpec, enums []int, lens []int, shape argShape) *ref.Msg {
	m := ref.NewMsg()
	for i, e := range s.Enums {
		m.N[e.Name] = enums[i]
	}
	for i, t := range s.Texts {
		ascii := t.ASCII
		if s.L.Name == "AuthenStart" && t.Name == "data" && m.N["authen_type"] == 1 {
			ascii = true
		}
		m.S[t.Name] = fill(t.Tag, lens[i], ascii)
	}
	if s.HasArgs {
		m.Args = mkArgs(shape)
	}
	return m
}
