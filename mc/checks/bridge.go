package checks

import (
	"bytes"
	"fmt"
	"time"

	tq "github.com/facebookincubator/tacquito"

	"verif/mc/ref"
	"verif/mc/srvx"
)

// toImpl builds the library value for a reference message of the given layout.
func toImpl(l ref.Layout, m *ref.Msg) tq.EncoderDecoder {
	args := func() tq.Args {
		if m.Args == nil {
			return nil
		}
		a := make(tq.Args, 0, len(m.Args))
		for _, x := range m.Args {
			a = append(a, tq.Arg(x))
		}
		return a
	}
	switch l.Name {
	case "AuthenStart":
		return &tq.AuthenStart{Action: tq.AuthenAction(m.N["action"]), PrivLvl: tq.PrivLvl(m.N["priv_lvl"]),
			Type: tq.AuthenType(m.N["authen_type"]), Service: tq.AuthenService(m.N["authen_service"]),
			User: tq.AuthenUser(m.S["user"]), Port: tq.AuthenPort(m.S["port"]), RemAddr: tq.AuthenRemAddr(m.S["rem_addr"]),
			Data: tq.AuthenData(m.S["data"])}
	case "AuthenReply":
		return &tq.AuthenReply{Status: tq.AuthenStatus(m.N["status"]), Flags: tq.AuthenReplyFlag(m.N["flags"]),
			ServerMsg: tq.AuthenServerMsg(m.S["server_msg"]), Data: tq.AuthenData(m.S["data"])}
	case "AuthenContinue":
		return &tq.AuthenContinue{Flags: tq.AuthenContinueFlag(m.N["flags"]),
			UserMessage: tq.AuthenUserMessage(m.S["user_msg"]), Data: tq.AuthenData(m.S["data"])}
	case "AuthorRequest":
		return &tq.AuthorRequest{Method: tq.AuthenMethod(m.N["authen_method"]), PrivLvl: tq.PrivLvl(m.N["priv_lvl"]),
			Type: tq.AuthenType(m.N["authen_type"]), Service: tq.AuthenService(m.N["authen_service"]),
			User: tq.AuthenUser(m.S["user"]), Port: tq.AuthenPort(m.S["port"]), RemAddr: tq.AuthenRemAddr(m.S["rem_addr"]),
			Args: args()}
	case "AuthorReply":
		return &tq.AuthorReply{Status: tq.AuthorStatus(m.N["status"]), Args: args(),
			ServerMsg: tq.AuthorServerMsg(m.S["server_msg"]), Data: tq.AuthorData(m.S["data"])}
	case "AcctRequest":
		return &tq.AcctRequest{Flags: tq.AcctRequestFlag(m.N["flags"]), Method: tq.AuthenMethod(m.N["authen_method"]),
			PrivLvl: tq.PrivLvl(m.N["priv_lvl"]), Type: tq.AuthenType(m.N["authen_type"]), Service: tq.AuthenService(m.N["authen_service"]),
			User: tq.AuthenUser(m.S["user"]), Port: tq.AuthenPort(m.S["port"]), RemAddr: tq.AuthenRemAddr(m.S["rem_addr"]),
			Args: args()}
	case "AcctReply":
		return &tq.AcctReply{Status: tq.AcctReplyStatus(m.N["status"]),
			ServerMsg: tq.AcctServerMsg(m.S["server_msg"]), Data: tq.AcctData(m.S["data"])}
	}
	panic("unknown layout " + l.Name)
}

// emptyImpl returns a zero value of the library type for a layout.
func emptyImpl(l ref.Layout) tq.EncoderDecoder {
	switch l.Name {
	case "AuthenStart":
		return &tq.AuthenStart{}
	case "AuthenReply":
		return &tq.AuthenReply{}
	case "AuthenContinue":
		return &tq.AuthenContinue{}
	case "AuthorRequest":
		return &tq.AuthorRequest{}
	case "AuthorReply":
		return &tq.AuthorReply{}
	case "AcctRequest":
		return &tq.AcctRequest{}
	case "AcctReply":
		return &tq.AcctReply{}
	}
	panic("unknown layout " + l.Name)
}

// fromImpl turns a library value back into field values.
func fromImpl(v tq.EncoderDecoder) *ref.Msg {
	m := ref.NewMsg()
	args := func(a tq.Args) {
		for _, x := range a {
			m.Args = append(m.Args, []byte(x))
		}
	}
	switch t := v.(type) {
	case *tq.AuthenStart:
		m.N["action"], m.N["priv_lvl"], m.N["authen_type"], m.N["authen_service"] = int(t.Action), int(t.PrivLvl), int(t.Type), int(t.Service)
		m.S["user"], m.S["port"], m.S["rem_addr"], m.S["data"] = []byte(t.User), []byte(t.Port), []byte(t.RemAddr), []byte(t.Data)
	case *tq.AuthenReply:
		m.N["status"], m.N["flags"] = int(t.Status), int(t.Flags)
		m.S["server_msg"], m.S["data"] = []byte(t.ServerMsg), []byte(t.Data)
	case *tq.AuthenContinue:
		m.N["flags"] = int(t.Flags)
		m.S["user_msg"], m.S["data"] = []byte(t.UserMessage), []byte(t.Data)
	case *tq.AuthorRequest:
		m.N["authen_method"], m.N["priv_lvl"], m.N["authen_type"], m.N["authen_service"] = int(t.Method), int(t.PrivLvl), int(t.Type), int(t.Service)
		m.S["user"], m.S["port"], m.S["rem_addr"] = []byte(t.User), []byte(t.Port), []byte(t.RemAddr)
		args(t.Args)
	case *tq.AuthorReply:
		m.N["status"] = int(t.Status)
		m.S["server_msg"], m.S["data"] = []byte(t.ServerMsg), []byte(t.Data)
		args(t.Args)
	case *tq.AcctRequest:
		m.N["flags"], m.N["authen_method"], m.N["priv_lvl"], m.N["authen_type"], m.N["authen_service"] = int(t.Flags), int(t.Method), int(t.PrivLvl), int(t.Type), int(t.Service)
		m.S["user"], m.S["port"], m.S["rem_addr"] = []byte(t.User), []byte(t.Port), []byte(t.RemAddr)
		args(t.Args)
	case *tq.AcctReply:
		m.N["status"] = int(t.Status)
		m.S["server_msg"], m.S["data"] = []byte(t.ServerMsg), []byte(t.Data)
	default:
		panic(fmt.Sprintf("fromImpl: %T", v))
	}
	return m
}

// sameMsg compares two messages field by field (nil and empty byte strings are equal).
func sameMsg(a, b *ref.Msg) string {
	for k, v := range a.N {
		if b.N[k] != v {
			return fmt.Sprintf("field %s: %d vs %d", k, v, b.N[k])
		}
	}
	for k, v := range b.N {
		if a.N[k] != v {
			return fmt.Sprintf("field %s: %d vs %d", k, a.N[k], v)
		}
	}
	for k, v := range a.S {
		if string(b.S[k]) != string(v) {
			return fmt.Sprintf("field %s: %s vs %s", k, hx(v), hx(b.S[k]))
		}
	}
	for k, v := range b.S {
		if string(a.S[k]) != string(v) {
			return fmt.Sprintf("field %s: %s vs %s", k, hx(a.S[k]), hx(v))
		}
	}
	if len(a.Args) != len(b.Args) {
		return fmt.Sprintf("argument count %d vs %d", len(a.Args), len(b.Args))
	}
	for i := range a.Args {
		if string(a.Args[i]) != string(b.Args[i]) {
			return fmt.Sprintf("argument %d: %s vs %s", i, hx(a.Args[i]), hx(b.Args[i]))
		}
	}
	return ""
}

// safely runs f and converts a panic into an error string.
func safely(f func()) (panicked string) {
	defer func() {
		if r := recover(); r != nil {
			panicked = fmt.Sprint(r)
		}
	}()
	f()
	return ""
}

// guarded runs f on its own goroutine, converting a panic into a string and giving up after
// srvx.HangTimeout (hung=true; the goroutine is abandoned, the caller must stop the worker).
func guarded(f func()) (panicked string, hung bool) {
	done := make(chan string, 1)
	go func() { done <- safely(f) }()
	select {
	case p := <-done:
		return p, false
	case <-time.After(srvx.HangTimeout):
		return "", true
	}
}

// msgJSON is a replayable rendering of a message.
type msgJSON struct {
	Layout string            `json:"layout"`
	N      map[string]int    `json:"n"`
	S      map[string]string `json:"s_hex"`
	Args   []string          `json:"args_hex"`
}

func msgToJSON(l ref.Layout, m *ref.Msg) msgJSON {
	j := msgJSON{Layout: l.Name, N: m.N, S: map[string]string{}}
	for k, v := range m.S {
		j.S[k] = fmt.Sprintf("%x", v)
	}
	for _, a := range m.Args {
		j.Args = append(j.Args, fmt.Sprintf("%x", a))
	}
	return j
}

func layoutByName(n string) ref.Layout {
	for _, ls := range ref.LayoutsByType {
		for _, l := range ls {
			if l.Name == n {
				return l
			}
		}
	}
	panic("no layout " + n)
}

func msgFromJSON(j msgJSON) (ref.Layout, *ref.Msg) {
	m := ref.NewMsg()
	for k, v := range j.N {
		m.N[k] = v
	}
	for k, v := range j.S {
		var b []byte
		fmt.Sscanf(v, "%x", &b)
		m.S[k] = b
	}
	for _, a := range j.Args {
		var b []byte
		fmt.Sscanf(a, "%x", &b)
		if b == nil {
			b = []byte{}
		}
		m.Args = append(m.Args, b)
	}
	return layoutByName(j.Layout), m
}

// heldCodec keeps what one codec evaluation handed out - the encoded bytes, the decoded object and the buffers that were
// passed in - so that the NEXT evaluation can confirm that nothing of it changed while other values were encoded and
// decoded (a result that is only correct until the next call is not the value the caller was given).
type heldCodec struct {
	L       ref.Layout
	M       *ref.Msg
	src     tq.EncoderDecoder // the value MarshalBinary was called on
	enc     []byte            // what MarshalBinary returned
	encCopy []byte
	in      []byte // what UnmarshalBinary was given
	inCopy  []byte
	dec     tq.EncoderDecoder // what UnmarshalBinary filled
	decWant *ref.Msg
}

func holdCodec(l ref.Layout, m *ref.Msg, src tq.EncoderDecoder, enc, in []byte, dec tq.EncoderDecoder) *heldCodec {
	h := &heldCodec{L: l, M: m, src: src, enc: enc, encCopy: append([]byte{}, enc...), in: in, inCopy: append([]byte{}, in...), dec: dec}
	if dec != nil {
		h.decWant = fromImpl(dec)
	}
	return h
}

// changed reports what of the held evaluation is no longer what it was.
func (h *heldCodec) changed() string {
	if h == nil {
		return ""
	}
	if !bytes.Equal(h.enc, h.encCopy) {
		return fmt.Sprintf("the bytes returned by an earlier MarshalBinary changed at offset %d during a later encode/decode", firstDiff(h.enc, h.encCopy))
	}
	if !bytes.Equal(h.in, h.inCopy) {
		return fmt.Sprintf("the input buffer of an earlier UnmarshalBinary was modified at offset %d", firstDiff(h.in, h.inCopy))
	}
	if h.dec != nil {
		if d := sameMsg(h.decWant, fromImpl(h.dec)); d != "" {
			return "a value decoded earlier changed during a later encode/decode: " + d
		}
	}
	if h.src != nil {
		if d := sameMsg(h.M, fromImpl(h.src)); d != "" {
			return "the value handed to an earlier MarshalBinary changed: " + d
		}
	}
	return ""
}
