package checks

import (
	"context"
	"encoding/json"
	"fmt"
	"net"
	"sort"
	"strings"

	tq "github.com/facebookincubator/tacquito"
	"github.com/facebookincubator/tacquito/cmds/server/config"
	"github.com/facebookincubator/tacquito/cmds/server/config/authorizers/stringy"

	"verif/mc/evid"
	"verif/mc/ref"
	"verif/mc/srvx"
)

// C11: authorization obeys policy: first match, whole-string match, default deny; session
// authorization returns exactly the values of the satisfied services.

func init() {
	Registry["C11"] = &Check{
		Spec: func(tier string) evid.Spec {
			return evid.Spec{ID: "C11", Level: "exploration", Exhaustive: true,
				Rule: "command path: rule alphabet = name{configure,show,*} x action{permit,deny} x match{none, [p] for 15 patterns (plain, alternation, partial anchors, escaped/unescaped dot, wildcards, invalid, padded, prefix alternations, lazy quantifier, empty branches), 6 pairs}; " +
					"policies = every single rule, every ordered pair of user rules, every (user rule, group rule) pair over the full alphabet, and every 3- and 4-rule policy (2 user + 1+1 group rules) over a reduced 12-rule alphabet; " +
					"requests = cmd{configure,show,conf} x 12 argument lists (two with a repeated token) x {service first, cmd first} x {cmd=, cmd*} x {shell, ppp}. session path: 1-3 services (user and group) over name{shell,ppp,junos-exec} x " +
					"match{none,[protocol=ip],[scope=s1],both} x set_values{[a=1],[b*2],both} x requests{service=shell cmd=, service=ppp protocol=ip, service=ppp protocol=ipx, service*shell, none, and the same with a client-supplied scope=s1 / scope=s2 attribute} x connection scope{s1,s2}. " +
					"history plane: one authorizer instance answers every ordered pair (thorough: also every triple) of 26 requests = cmd{show, 'show ip', 'show ip route', configure, 'configure terminal'} x 5 argument lists + a session request, under every single rule and rule pair over name{show,'show ip',configure,*} x action x match{none,[ip route],[route],[.*],[terminal]}; each answer is judged on its own (same typed line, different cmd/argument split). " +
					"loader plane: a user assigned to three scopes (all six orders) with one scope-conditioned service per scope and a group service for one scope, authorizers built by the real loader, session authorizations on connections of each scope through the full server; " +
					"Every (policy, request) pair is evaluated by the real stringy authorizer (direct handler call, recording Response) and by the independent evaluator mc/ref/authz.go. " +
					"distinct_nontrivial = distinct (policy, request) pairs on which at least one rule/service applies",
				Assumptions: []string{"whole-string match is stated with Go's regexp as ^(?:p)$", "where evaluation reaches an invalid pattern before a decision both FAIL and the skip-the-pattern result are accepted (the statement leaves it open)",
					"duplicate request attributes with different values and empty patterns are outside the alphabet (undefined by the statement)"}}
		},
		Workers: constInt(16, 16),
		Run:     c11Run,
		Replay:  c11Replay,
	}
}

// recResp is a recording tq.Response for direct handler calls.
type recResp struct {
	replies []tq.EncoderDecoder
	next    tq.Handler
}

func (r *recResp) Reply(v tq.EncoderDecoder) (int, error) {
	r.replies = append(r.replies, v)
	return 0, nil
}
func (r *recResp) ReplyWithContext(ctx context.Context, v tq.EncoderDecoder, w ...tq.Writer) (int, error) {
	r.replies = append(r.replies, v)
	return 0, nil
}
func (r *recResp) Write(p *tq.Packet) (int, error) { return 0, nil }
func (r *recResp) Next(n tq.Handler)               { r.next = n }
func (r *recResp) RegisterWriter(tq.Writer)        {}
func (r *recResp) Context(ctx context.Context)     {}

type c11Case struct {
	UserRules  []ref.Rule   `json:"user_rules,omitempty"`
	GroupRules [][]ref.Rule `json:"group_rules,omitempty"`
	UserSvcs   []ref.Svc    `json:"user_services,omitempty"`
	GroupSvcs  []ref.Svc    `json:"group_services,omitempty"`
	Args       []string     `json:"args"`
	Scope      string       `json:"scope"`
	// Prior are requests answered by the same authorizer instance before Args (history plane)
	Prior [][]string `json:"prior,omitempty"`
}

func toCmds(rs []ref.Rule) []config.Command {
	var out []config.Command
	for _, r := range rs {
		out = append(out, config.Command{Name: r.Name, Match: append([]string{}, r.Match...), Action: config.Action(r.Action)})
	}
	return out
}

func toVals(vs []ref.Val) []config.Value {
	var out []config.Value
	for _, v := range vs {
		out = append(out, config.Value{Name: v.Name, Values: append([]string{}, v.Values...), Optional: v.Optional})
	}
	return out
}

func toSvcs(ss []ref.Svc) []config.Service {
	var out []config.Service
	for _, s := range ss {
		out = append(out, config.Service{Name: s.Name, Match: toVals(s.Match), SetValues: toVals(s.Set)})
	}
	return out
}

var c11Factory = stringy.New(&srvx.Logger{})

func c11Eval(c *Ctx, cs c11Case) {
	c.R.Eval()
	user := config.User{Name: "alice", Scopes: []string{cs.Scope}, Commands: toCmds(cs.UserRules), Services: toSvcs(cs.UserSvcs)}
	for i, g := range cs.GroupRules {
		user.Groups = append(user.Groups, config.Group{Name: fmt.Sprintf("g%d", i), Commands: toCmds(g)})
	}
	if len(cs.GroupSvcs) > 0 {
		user.Groups = append(user.Groups, config.Group{Name: "gs", Services: toSvcs(cs.GroupSvcs)})
	}
	h, err := c11Factory.New(user)
	if err != nil {
		c.R.Violate("factory-error", err.Error(), cs)
		return
	}
	// the decision is a function of the policy and the request alone: every request of a history on one authorizer
	// instance is judged on its own
	for i := range cs.Prior {
		if !c11One(c, h, cs, cs.Prior[i], i) {
			return
		}
	}
	c11One(c, h, cs, cs.Args, len(cs.Prior))
}

func c11One(c *Ctx, h tq.Handler, cs c11Case, reqArgs []string, pos int) bool {
	args := make(tq.Args, 0, len(reqArgs))
	for _, a := range reqArgs {
		args = append(args, tq.Arg(a))
	}
	body, err := tq.NewAuthorRequest(tq.SetAuthorRequestMethod(tq.AuthenMethodTacacsPlus), tq.SetAuthorRequestPrivLvl(1), tq.SetAuthorRequestType(tq.AuthenTypeASCII),
		tq.SetAuthorRequestService(tq.AuthenServiceLogin), tq.SetAuthorRequestUser("alice"), tq.SetAuthorRequestArgs(args)).MarshalBinary()
	if err != nil {
		panic(err)
	}
	resp := &recResp{}
	req := tq.Request{Header: tq.Header{Version: tq.Version{MajorVersion: 0xc}, Type: tq.Authorize, SeqNo: 1, SessionID: 11}, Body: body, Context: context.Background()}
	if p := safely(func() { h.Handle(resp, req) }); p != "" {
		c.R.Violate("panic", "authorizer panicked: "+p, cs)
		return false
	}
	held := true
	fail := func(kind, what string) {
		held = false
		hist := ""
		if len(cs.Prior) > 0 {
			kind += "-after-history"
			hist = fmt.Sprintf(" (request %d of the history %q on one authorizer instance)", pos+1, append(append([][]string{}, cs.Prior...), cs.Args))
		}
		c.R.ViolateMin(kind, fmt.Sprintf("%s; policy user=%v groups=%v usvc=%v gsvc=%v request=%q scope=%s%s", what, cs.UserRules, cs.GroupRules, cs.UserSvcs, cs.GroupSvcs, reqArgs, cs.Scope, hist), cs,
			len(cs.UserRules)+len(cs.GroupRules)+len(cs.UserSvcs)+len(cs.GroupSvcs)+len(cs.Prior))
	}
	if len(resp.replies) != 1 {
		fail("reply-count", fmt.Sprintf("authorizer replied %d times", len(resp.replies)))
		return held
	}
	rep, ok := resp.replies[0].(*tq.AuthorReply)
	if !ok {
		fail("reply-type", fmt.Sprintf("reply is %T", resp.replies[0]))
		return held
	}
	// all rules, user first then groups in order
	rules := append([]ref.Rule{}, cs.UserRules...)
	for _, g := range cs.GroupRules {
		rules = append(rules, g...)
	}
	if isCmd, cmd, argstr := ref.CommandRequest(reqArgs); isCmd {
		v := ref.EvalCommand(rules, cmd, argstr)
		granted := rep.Status == tq.AuthorStatusPassAdd
		if rep.Status != tq.AuthorStatusPassAdd && rep.Status != tq.AuthorStatusFail {
			fail("cmd-status", fmt.Sprintf("command authorization answered with status %v", rep.Status))
			return held
		}
		applies := false
		for _, r := range rules {
			if r.Name == "*" || strings.TrimSpace(r.Name) == cmd {
				applies = true
			}
		}
		if applies {
			c.R.Distinct(evid.Hash(fmt.Sprint(rules), fmt.Sprint(reqArgs)))
		}
		if granted != v.Permit && !(v.ReachedInvalid && granted == v.AltPermit) {
			kind := "cmd-granted-but-policy-denies"
			if !granted {
				kind = "cmd-denied-but-policy-permits"
			}
			fail(kind, fmt.Sprintf("command %q args %q: server %v, policy says permit=%v", cmd, argstr, rep.Status, v.Permit))
		}
		return held
	}
	// session path
	svcs := append(append([]ref.Svc{}, cs.UserSvcs...), cs.GroupSvcs...)
	v := ref.EvalSession(svcs, reqArgs, cs.Scope)
	got := map[string]bool{}
	for _, a := range rep.Args {
		got[strings.TrimSpace(string(a))] = true
	}
	if len(v.Values) > 0 {
		c.R.Distinct(evid.Hash(fmt.Sprint(svcs), fmt.Sprint(reqArgs), cs.Scope))
	}
	if len(v.Values) == 0 {
		if rep.Status != tq.AuthorStatusFail || len(got) != 0 {
			fail("sess-granted-but-nothing-satisfied", fmt.Sprintf("no service is satisfied but the server answered %v with %v", rep.Status, keys(got)))
		}
		return held
	}
	if rep.Status != tq.AuthorStatusPassAdd && rep.Status != tq.AuthorStatusPassRepl {
		fail("sess-denied-but-satisfied", fmt.Sprintf("services are satisfied (values %v) but the server answered %v", keys(v.Values), rep.Status))
		return held
	}
	if fmt.Sprint(keys(got)) != fmt.Sprint(keys(v.Values)) {
		fail("sess-values", fmt.Sprintf("returned values %v, configured values of the satisfied services %v", keys(got), keys(v.Values)))
		return held
	}
	if v.MustRepl && rep.Status != tq.AuthorStatusPassRepl {
		fail("sess-mark", "an optional value was returned but the reply is not marked replace")
	}
	if v.MustAdd && rep.Status != tq.AuthorStatusPassAdd {
		fail("sess-mark", "nothing optional is involved but the reply is marked replace")
	}
	return held
}

func keys(m map[string]bool) []string {
	out := make([]string, 0, len(m))
	for k := range m {
		out = append(out, k)
	}
	sort.Strings(out)
	return out
}

var c11Patterns = []string{"terminal", "terminal|exclusive", "^terminal", "terminal$", "^(terminal|exclusive)$", "te.minal", `te\.minal`, "t.*", ".*", "(", " terminal ",
	// patterns whose preferred (leftmost-first) match is shorter than the whole-string match another branch allows
	"t|term|terminal", "terminal|terminal .*", "t.*?", "(|x)terminal(| ; reload)"}

func c11RuleAlphabet(reduced bool) []ref.Rule {
	var out []ref.Rule
	matches := [][]string{nil}
	for _, p := range c11Patterns {
		matches = append(matches, []string{p})
	}
	matches = append(matches, []string{"exclusive", "terminal"}, []string{"(", "terminal"}, []string{"terminal", "("}, []string{"t.*", "batch"}, []string{"terminal|exclusive", ".*"}, []string{`te\.minal`, "te.minal"})
	if reduced {
		matches = [][]string{nil, {"terminal|exclusive"}, {"t.*"}, {"("}}
	}
	names := []string{"configure", "show", "*"}
	for _, n := range names {
		for _, a := range []int{2, 1} {
			for _, m := range matches {
				if n == "*" && len(m) > 0 && reduced {
					continue
				}
				out = append(out, ref.Rule{Name: n, Action: a, Match: m})
			}
		}
	}
	return out
}

func c11Requests() [][]string {
	argLists := [][]string{{}, {"terminal"}, {"exclusive"}, {"terminal", ";", "reload"}, {"terminal;reload"}, {"terminal", "<cr>"}, {"<cr>"}, {"xx", "terminal"}, {"te-minal"}, {" terminal "},
		// the same token more than once: the argument string is what was typed, repetitions included
		{"terminal", "terminal"}, {"xx", "terminal", "xx"}}
	var out [][]string
	for _, cmd := range []string{"configure", "show", "conf"} {
		for _, al := range argLists {
			for _, svcFirst := range []bool{true, false} {
				for _, sep := range []string{"=", "*"} {
					for _, svc := range []string{"shell", "ppp"} {
						var args []string
						s, cm := "service="+svc, "cmd"+sep+cmd
						if svcFirst {
							args = []string{s, cm}
						} else {
							args = []string{cm, s}
						}
						for _, a := range al {
							args = append(args, "cmd-arg="+a)
						}
						out = append(out, args)
					}
				}
			}
		}
	}
	return out
}

func c11Run(c *Ctx) {
	reqs := c11Requests()
	full := c11RuleAlphabet(false)
	red := c11RuleAlphabet(true)
	job := 0
	n := 0
	run := func(cs c11Case) {
		n++
		c11Eval(c, cs)
		if n%50021 == 0 {
			c.R.SampleCap(6, cs)
		}
	}
	// single rules and pairs over the full alphabet
	for _, r1 := range full {
		job++
		if !c.Mine(job) {
			continue
		}
		for _, rq := range reqs {
			run(c11Case{UserRules: []ref.Rule{r1}, Args: rq, Scope: "s1"})
			run(c11Case{GroupRules: [][]ref.Rule{{r1}}, Args: rq, Scope: "s1"})
		}
		for _, r2 := range full {
			for _, rq := range reqs {
				if c.Quick && rq[0] != "service=shell" {
					continue // quick: the ppp / cmd-first variants are crossed with single rules only
				}
				run(c11Case{UserRules: []ref.Rule{r1, r2}, Args: rq, Scope: "s1"})
				run(c11Case{UserRules: []ref.Rule{r1}, GroupRules: [][]ref.Rule{{r2}}, Args: rq, Scope: "s1"})
			}
		}
		if c.Expired() {
			return
		}
	}
	// 3- and 4-rule policies over the reduced alphabet: 2 user rules + 1 rule in each of two groups
	shellReqs := [][]string{}
	for _, rq := range reqs {
		if rq[0] == "service=shell" && strings.HasPrefix(rq[1], "cmd=") {
			shellReqs = append(shellReqs, rq)
		}
	}
	for _, r1 := range red {
		for _, r2 := range red {
			job++
			if !c.Mine(job) {
				continue
			}
			for _, r3 := range red {
				for _, rq := range shellReqs {
					run(c11Case{UserRules: []ref.Rule{r1, r2}, GroupRules: [][]ref.Rule{{r3}}, Args: rq, Scope: "s1"})
				}
				if c.Quick {
					continue
				}
				for _, r4 := range red {
					for _, rq := range shellReqs {
						run(c11Case{UserRules: []ref.Rule{r1, r2}, GroupRules: [][]ref.Rule{{r3}, {r4}}, Args: rq, Scope: "s1"})
					}
				}
			}
		}
	}
	// history plane: one authorizer instance answers a sequence of requests whose command / argument split differs while
	// the typed line is the same ("show" + "ip route", "show ip" + "route", "show ip route"), mixed with a session
	// request; every answer must be the one the policy gives to that request alone
	var hReqs [][]string
	for _, cmd := range []string{"show", "show ip", "show ip route", "configure", "configure terminal"} {
		for _, al := range [][]string{{}, {"ip", "route"}, {"route"}, {"ip route"}, {"terminal"}} {
			rq := []string{"service=shell", "cmd=" + cmd}
			for _, a := range al {
				rq = append(rq, "cmd-arg="+a)
			}
			hReqs = append(hReqs, rq)
		}
	}
	hReqs = append(hReqs, []string{"service=shell", "cmd="})
	var hRules, hRed []ref.Rule
	for _, n := range []string{"show", "show ip", "configure", "*"} {
		for _, a := range []int{2, 1} {
			for i, m := range [][]string{nil, {"ip route"}, {"route"}, {".*"}, {"terminal"}} {
				r := ref.Rule{Name: n, Action: a, Match: m}
				hRules = append(hRules, r)
				if i < 3 && n != "configure" {
					hRed = append(hRed, r)
				}
			}
		}
	}
	histories := func(pol c11Case, depth int) {
		var rec func(prior [][]string)
		rec = func(prior [][]string) {
			for _, rq := range hReqs {
				if len(prior)+1 == depth {
					cs := pol
					cs.Prior, cs.Args, cs.Scope = prior, rq, "s1"
					run(cs)
					continue
				}
				rec(append(append([][]string{}, prior...), rq))
			}
		}
		rec(nil)
	}
	svcShell := []ref.Svc{{Name: "shell", Set: []ref.Val{{Name: "a", Values: []string{"1"}}}}}
	for _, r1 := range hRules {
		job++
		if !c.Mine(job) {
			continue
		}
		histories(c11Case{UserRules: []ref.Rule{r1}}, 2)
		histories(c11Case{GroupRules: [][]ref.Rule{{r1}}, UserSvcs: svcShell}, 2)
		if !c.Quick {
			histories(c11Case{UserRules: []ref.Rule{r1}, UserSvcs: svcShell}, 3)
		}
		pairs := hRed
		if !c.Quick {
			pairs = hRules
		}
		for _, r2 := range pairs {
			histories(c11Case{UserRules: []ref.Rule{r1, r2}}, 2)
			histories(c11Case{UserRules: []ref.Rule{r1}, GroupRules: [][]ref.Rule{{r2}}}, 2)
		}
		if c.Expired() {
			return
		}
	}
	// loader plane: authorizers built by the real loader for a user assigned to three scopes, in every order and every
	// non-empty subset order, asked on connections of each scope
	{
		orders := [][]int{{0, 1, 2}, {0, 2, 1}, {1, 0, 2}, {1, 2, 0}, {2, 0, 1}, {2, 1, 0}}
		for _, ord := range orders {
			job++
			if !c.Mine(job) {
				continue
			}
			rw, err := newRWorld(c11LoaderCfg(ord), nil, false)
			if err != nil {
				panic(err)
			}
			for conn := 0; conn < 3; conn++ {
				c11Loader(c, rw, c11LoaderCase{Order: ord, Conn: conn})
				c11Loader(c, rw, c11LoaderCase{Order: ord, Conn: conn, PPP: true})
			}
			rw.stop()
		}
	}
	// session path
	var svcAlpha []ref.Svc
	matchSets := [][]ref.Val{nil, {{Name: "protocol", Values: []string{"ip"}}}, {{Name: "scope", Values: []string{"s1"}}}, {{Name: "protocol", Values: []string{"ip"}}, {Name: "scope", Values: []string{"s1"}}}}
	setSets := [][]ref.Val{{{Name: "a", Values: []string{"1"}}}, {{Name: "b", Values: []string{"2"}, Optional: true}}, {{Name: "a", Values: []string{"1"}}, {Name: "b", Values: []string{"2"}, Optional: true}}, {{Name: "shell:roles", Values: []string{"admin", "ops"}, Optional: true}}}
	for _, name := range []string{"shell", "ppp", "junos-exec", "ip"} {
		for _, m := range matchSets {
			for _, sv := range setSets {
				svcAlpha = append(svcAlpha, ref.Svc{Name: name, Match: m, Set: sv})
			}
		}
	}
	// requests include a client-supplied scope attribute: the scope a service is matched against is the connection's,
	// whatever the client claims
	sessReqs := [][]string{{"service=shell", "cmd="}, {"service=ppp", "protocol=ip"}, {"service=ppp", "protocol=ipx"}, {"service*shell"}, {"service=shell", "cmd*"}, {"service=junos-exec"}, {"protocol=ip"}, {},
		{"service=shell", "cmd=", "scope=s1"}, {"service=shell", "cmd=", "scope=s2"}, {"scope=s1", "service=ppp", "protocol=ip"}, {"scope=s2", "service=ppp", "protocol=ip"}}
	for _, s1 := range svcAlpha {
		job++
		if !c.Mine(job) {
			continue
		}
		for _, scope := range []string{"s1", "s2"} {
			for _, rq := range sessReqs {
				run(c11Case{UserSvcs: []ref.Svc{s1}, Args: rq, Scope: scope})
				for _, s2 := range svcAlpha {
					run(c11Case{UserSvcs: []ref.Svc{s1, s2}, Args: rq, Scope: scope})
					run(c11Case{UserSvcs: []ref.Svc{s1}, GroupSvcs: []ref.Svc{s2}, Args: rq, Scope: scope})
					if c.Quick {
						continue
					}
					for _, s3 := range svcAlpha {
						if s3.Name == "ip" {
							continue
						}
						run(c11Case{UserSvcs: []ref.Svc{s1, s2}, GroupSvcs: []ref.Svc{s3}, Args: rq, Scope: scope})
					}
				}
			}
		}
	}
}

// c11LoaderCase: the authorizers are built by the real loader for a user assigned to three scopes (listed in the given
// order); the request arrives on a connection bound to scope Conn.
type c11LoaderCase struct {
	Order []int `json:"loader_scope_order"`
	Conn  int   `json:"connection_scope"`
	PPP   bool  `json:"ppp"`
}

var c11LScopes = []struct{ name, key, prefix string }{{"a", "key-a", "10.0.0.0/8"}, {"b", "key-b", "172.16.0.0/12"}, {"c", "key-c", "192.168.0.0/16"}}

func c11LoaderCfg(order []int) config.ServerConfig {
	var cfg config.ServerConfig
	var svcs []config.Service
	for _, sc := range c11LScopes {
		cfg.Secrets = append(cfg.Secrets, scopeCfg(sc.name, sc.key, sc.prefix))
		svcs = append(svcs, config.Service{Name: "shell", Match: []config.Value{{Name: "scope", Values: []string{sc.name}}}, SetValues: []config.Value{{Name: "tag", Values: []string{sc.name}}}})
	}
	grp := config.Group{Name: "g", Services: []config.Service{{Name: "ppp", Match: []config.Value{{Name: "scope", Values: []string{"b"}}}, SetValues: []config.Value{{Name: "pool", Values: []string{"b"}}}}}}
	var scopes []string
	for _, i := range order {
		scopes = append(scopes, c11LScopes[i].name)
	}
	cfg.Users = []config.User{{Name: "multi", Scopes: scopes, Services: svcs, Groups: []config.Group{grp}}}
	return cfg
}

func c11Loader(c *Ctx, rw *rworld, cs c11LoaderCase) {
	c.R.Eval()
	c.Cur(cs)
	sc := c11LScopes[cs.Conn]
	addr := []net.Addr{srvx.Addr4(10, 1, 1, 1, 1100), srvx.Addr4(172, 16, 1, 1, 1100), srvx.Addr4(192, 168, 1, 1, 1100)}[cs.Conn]
	conn, err := rw.W.Open(addr)
	if err != nil {
		c.Abort("hang", err.Error(), cs)
	}
	defer func() {
		if !conn.Closed() {
			conn.FeedEOF()
		}
	}()
	fail := func(what string) {
		c.R.ViolateMin("loader/"+firstWord(what), fmt.Sprintf("user in scopes listed as %v, connection bound to scope %s: %s", cs.Order, sc.name, what), cs, 1)
	}
	if conn.Closed() {
		fail("refused: the connection was not served")
		return
	}
	m := ref.NewMsg()
	m.N["authen_method"], m.N["priv_lvl"], m.N["authen_type"], m.N["authen_service"] = 6, 1, 1, 1
	m.S["user"] = []byte("multi")
	m.Args = [][]byte{[]byte("service=shell"), []byte("cmd=")}
	want := []string{"tag=" + sc.name}
	if cs.PPP {
		m.Args = [][]byte{[]byte("service=ppp"), []byte("protocol=ip")}
		want = nil
		if sc.name == "b" {
			want = []string{"pool=b"}
		}
	}
	body, _ := ref.AuthorRequest.Encode(m)
	key := []byte(sc.key)
	closed, err := rw.W.Deliver(conn, ref.Packet(ref.Header{Version: 0xc0, Type: 2, Seq: 1, Session: 0x11}, key, body))
	if err != nil {
		c.Abort("hang", err.Error(), cs)
	}
	pk, rest := srvx.ParseStream(conn.Take())
	if closed || len(pk) != 1 || len(rest) != 0 {
		fail(fmt.Sprintf("no-answer: closed=%v packets=%d", closed, len(pk)))
		return
	}
	rm, cl := ref.AuthorReply.Decode(ref.Obfuscate(pk[0].H, key, pk[0].Body))
	if cl != ref.Exact {
		fail("undecodable reply")
		return
	}
	var got []string
	for _, a := range rm.Args {
		got = append(got, strings.TrimSpace(string(a)))
	}
	if want == nil {
		if rm.N["status"] != 0x10 || len(got) != 0 {
			fail(fmt.Sprintf("granted: no service applies on this scope but the answer is status %#x %v", rm.N["status"], got))
		}
	} else if rm.N["status"] != 1 || fmt.Sprint(got) != fmt.Sprint(want) {
		fail(fmt.Sprintf("values: answered status %#x %v, the service configured for this scope gives %v", rm.N["status"], got, want))
	}
	c.R.Distinct(evid.Hash("loader", cs))
}

func c11Replay(c *Ctx, raw json.RawMessage) {
	var lc c11LoaderCase
	if json.Unmarshal(raw, &lc) == nil && len(lc.Order) > 0 {
		rw, err := newRWorld(c11LoaderCfg(lc.Order), nil, false)
		if err != nil {
			panic(err)
		}
		defer rw.stop()
		c11Loader(c, rw, lc)
		return
	}
	var cs c11Case
	if err := json.Unmarshal(raw, &cs); err != nil {
		panic(err)
	}
	c11Eval(c, cs)
}
