//go:build !sched

package checks

import (
	"bytes"
	"context"
	"encoding/json"
	"fmt"
	"os"
	"path/filepath"
	"reflect"
	"time"

	"github.com/facebookincubator/tacquito/cmds/server/config"
	jsonloader "github.com/facebookincubator/tacquito/cmds/server/loader/json"
	yamlloader "github.com/facebookincubator/tacquito/cmds/server/loader/yaml"
	"gopkg.in/yaml.v3"

	"verif/mc/enum"
	"verif/mc/evid"
	"verif/mc/ref"
	"verif/mc/srvx"
)

// C16: reloading a configuration file is equivalent to starting with it.

func init() {
	Registry["C16"] = &Check{
		Spec: func(tier string) evid.Spec {
			d := 3
			if tier != "quick" {
				d = 4
			}
			return evid.Spec{ID: "C16", Level: "exploration", Exhaustive: true,
				Rule: fmt.Sprintf("15 documents per format (YAML, JSON): base; without prefix_deny; without prefix_allow; users reordered; users shrunk so the guest takes the administrator's list position; administrator without commands; "+
					"without groups and authenticator; authenticator options with a key removed; secrets shrunk and reordered; syntactically invalid; valid but no users; valid but no secrets; one scope only; the group keeps its name and its members their entries but it grants no command / other commands. All sequences of length <= %d are fed to ONE loader object. "+
					"After every load: a successful load must publish a value reflect.DeepEqual to what a freshly constructed loader publishes for the same document; every value published earlier must still equal the deep copy taken when it was published; "+
					"a failing load must publish nothing; when a failing document is fed before the consumer collected the previously published value, that value must still be delivered unchanged. Each published value is also handed to a real loader.Loader behind the full server and the outcome of (a) a connection from an address only prefix_deny blocks, (a2) a lookup from an address only the second scope covers (served iff the document lists that scope and assigns it a user) and (b) nine command authorizations (a command only the administrator holds, commands only the group grants, asked as members and as a non-member) "+
					"must be what the last good document says. File plane: ONE path rewritten <= 3 (4) times over {document A, A with one rule flipped (same length), another document, unparsable text} x {modification time moves on, modification time pinned} and reloaded with Load(path) after every rewrite: what is published equals what a fresh loader publishes for the file as it is now. distinct_nontrivial = distinct sequences with at least two different successful documents", d),
				Assumptions: []string{"documents are produced by marshalling config values with the repository's struct tags (omitempty drops the optional keys)"}}
		},
		Workers: constInt(16, 16),
		Run:     c16Run,
		Replay:  c16Replay,
	}
}

type c16Case struct {
	Format string `json:"format"`
	Seq    []int  `json:"documents"`
	Lazy   int    `json:"lazy_collect_before_step,omitempty"` // 1-based index of the failing step fed before the previous value was collected
	// Files: the documents are written to ONE path and loaded with Load(path) (file plane)
	Files []c16FileOp `json:"file_ops,omitempty"`
}

// c16FileOp rewrites the configuration file with one of four texts (0: document A, 1: A with one rule flipped, same
// length; 2: another document; 3: text that fails to parse) and either moves its modification time on or leaves it pinned
// (deployment that preserves timestamps, or two saves within the timestamp granularity), then reloads.
type c16FileOp struct {
	Text      int  `json:"text"`
	SameMtime bool `json:"same_mtime"`
}

func c16FileTexts(format string, docs []config.ServerConfig) [][]byte {
	twin := deepCopyCfg(docs[0])
	flipped := false
	for i := range twin.Users {
		for j := range twin.Users[i].Commands {
			if !flipped && twin.Users[i].Commands[j].Action == config.PERMIT {
				twin.Users[i].Commands[j].Action = config.DENY
				flipped = true
			}
		}
	}
	twinDocs := []config.ServerConfig{twin}
	a, b := c16Text(format, 0, docs), c16Text(format, 0, twinDocs)
	if !flipped || len(a) != len(b) || bytes.Equal(a, b) {
		panic("C16 generator: the twin document must differ from document 0 and have its length")
	}
	return [][]byte{a, b, c16Text(format, 1, docs), c16Text(format, 9, docs)}
}

type c16FileLoader interface {
	c16Loader
	Load(path string) error
}

// loadFile is loadOnce through Load(path).
func loadFile(l c16FileLoader, path string) (*config.ServerConfig, error) {
	done := make(chan error, 1)
	go func() { done <- l.Load(path) }()
	var got *config.ServerConfig
	for {
		select {
		case c := <-l.Config():
			cc := c
			got = &cc
		case err := <-done:
			select {
			case c := <-l.Config():
				cc := c
				got = &cc
			default:
			}
			return got, err
		}
	}
}

// c16Files: one loader instance reloads one path whose content and modification time the environment decides; after
// every reload it must have published what a fresh loader publishes for the file as it is now.
func c16Files(c *Ctx, format string, ops []c16FileOp, docs []config.ServerConfig) {
	c.R.Eval()
	cs := c16Case{Format: format, Files: ops}
	c.Cur(cs)
	fail := func(kind, what string) {
		c.R.ViolateMin(format+"/file/"+kind, fmt.Sprintf("%s; %s file operations %+v", what, format, ops), cs, len(ops))
	}
	texts := c16FileTexts(format, docs)
	dir, err := os.MkdirTemp(os.Getenv("VERIF_WORK"), "c16f")
	if err != nil {
		panic(err)
	}
	defer os.RemoveAll(dir)
	path := filepath.Join(dir, "tacquito."+format)
	t0 := time.Date(2024, 5, 1, 12, 0, 0, 0, time.UTC)
	l := newC16Loader(format).(c16FileLoader)
	distinctTexts := map[int]bool{}
	for step, op := range ops {
		if err := os.WriteFile(path, texts[op.Text], 0o644); err != nil {
			panic(err)
		}
		mt := t0
		if !op.SameMtime {
			mt = t0.Add(time.Duration(step+1) * time.Second)
		}
		if err := os.Chtimes(path, mt, mt); err != nil {
			panic(err)
		}
		got, err := loadFile(l, path)
		want, werr := loadFile(newC16Loader(format).(c16FileLoader), path)
		c.R.Trans(1)
		if want == nil || werr != nil {
			if got != nil {
				fail("published-on-failure", fmt.Sprintf("step %d: the file fails to load on a fresh loader but a value was published here (err=%v)", step, err))
				return
			}
			if err == nil {
				fail("no-error", fmt.Sprintf("step %d: the file loads without error here but fails on a fresh loader", step))
				return
			}
			continue
		}
		distinctTexts[op.Text] = true
		if err != nil || got == nil {
			fail("reload-fails", fmt.Sprintf("step %d: the file loads on a fresh loader but not here (err=%v)", step, err))
			return
		}
		if !reflect.DeepEqual(*got, *want) {
			fail("differs-from-fresh", fmt.Sprintf("step %d: the configuration published after reloading the file differs from what a fresh loader publishes for it: %s", step, cfgDiff(*got, *want)))
			return
		}
	}
	if len(distinctTexts) >= 2 {
		c.R.Distinct(evid.Hash(format, "files", fmt.Sprint(ops)))
	}
}

func c16Docs() []config.ServerConfig {
	adminCmds := []config.Command{{Name: "configure", Match: []string{"terminal"}, Action: config.PERMIT}, {Name: "show", Action: config.PERMIT}}
	guestCmds := []config.Command{{Name: "show", Match: []string{"version"}, Action: config.PERMIT}}
	grp := config.Group{Name: "noc", Commands: []config.Command{{Name: "ping", Action: config.PERMIT}}, Authenticator: bcryptAuthn("grp-pw"), Accounter: fileAcct()}
	authFull := &config.Authenticator{Type: config.BCRYPT, Options: map[string]string{"hash": bcryptHex("admin-pw"), "key": "admin-key", "group": "kg"}}
	authLess := &config.Authenticator{Type: config.BCRYPT, Options: map[string]string{"hash": bcryptHex("admin-pw")}}
	admin := config.User{Name: "admin", Scopes: []string{"s1"}, Groups: []config.Group{grp}, Commands: adminCmds, Authenticator: authFull,
		Services: []config.Service{{Name: "shell", SetValues: []config.Value{{Name: "priv-lvl", Values: []string{"15"}}}}}}
	guest := config.User{Name: "guest", Scopes: []string{"s1"}, Commands: guestCmds, Authenticator: bcryptAuthn("guest-pw")}
	third := config.User{Name: "third", Scopes: []string{"s1", "s2"}, Groups: []config.Group{grp}}
	s1 := scopeCfg("s1", "key-one", "10.0.0.0/8")
	s2 := scopeCfg("s2", "key-two", "192.168.0.0/16")
	base := config.ServerConfig{Secrets: []config.SecretConfig{s1, s2}, Users: []config.User{admin, guest, third},
		PrefixDeny: []string{"10.9.0.0/16"}, PrefixAllow: []string{"10.0.0.0/8", "192.168.0.0/16"}}
	mod := func(f func(c *config.ServerConfig)) config.ServerConfig {
		c := deepCopyCfg(base)
		f(&c)
		return c
	}
	return []config.ServerConfig{
		base,
		mod(func(c *config.ServerConfig) { c.PrefixDeny = nil }),
		mod(func(c *config.ServerConfig) { c.PrefixAllow = nil }),
		mod(func(c *config.ServerConfig) { c.Users = []config.User{c.Users[2], c.Users[1], c.Users[0]} }),
		mod(func(c *config.ServerConfig) { c.Users = []config.User{c.Users[1]} }),
		mod(func(c *config.ServerConfig) { c.Users[0].Commands = nil }),
		mod(func(c *config.ServerConfig) {
			c.Users[0].Groups = nil
			c.Users[0].Authenticator = nil
			c.Users[2].Groups = nil
		}),
		mod(func(c *config.ServerConfig) { c.Users[0].Authenticator = authLess }),
		mod(func(c *config.ServerConfig) { c.Secrets = []config.SecretConfig{s2, s1} }),
		{}, // 9: placeholder for the syntactically invalid document
		mod(func(c *config.ServerConfig) { c.Users = nil }),
		mod(func(c *config.ServerConfig) { c.Secrets = nil }),
		mod(func(c *config.ServerConfig) { c.Secrets = []config.SecretConfig{s1} }),
		// 13, 14: the group keeps its name and its members' own entries are untouched, only what the group grants changes
		mod(func(c *config.ServerConfig) { c16SetGroup(c, "noc", nil) }),
		mod(func(c *config.ServerConfig) {
			c16SetGroup(c, "noc", []config.Command{{Name: "traceroute", Action: config.PERMIT}, {Name: "ping", Match: []string{"10\\..*"}, Action: config.PERMIT}})
		}),
	}
}

// c16SetGroup replaces the commands of every occurrence of the named group.
func c16SetGroup(c *config.ServerConfig, name string, cmds []config.Command) {
	for i := range c.Users {
		for j := range c.Users[i].Groups {
			if c.Users[i].Groups[j].Name == name {
				c.Users[i].Groups[j].Commands = cmds
			}
		}
	}
}

func c16Text(format string, i int, docs []config.ServerConfig) []byte {
	if i == 9 {
		if format == "yaml" {
			return []byte("users: [\n  - name: {unterminated\n")
		}
		return []byte(`{"users": [ {"name": `)
	}
	var b []byte
	var err error
	if format == "yaml" {
		b, err = yaml.Marshal(docs[i])
	} else {
		b, err = json.Marshal(docs[i])
	}
	if err != nil {
		panic(err)
	}
	return b
}

type c16Loader interface {
	Unmarshal(b []byte) error
	Config() chan config.ServerConfig
}

func newC16Loader(format string) c16Loader {
	if format == "yaml" {
		return yamlloader.New()
	}
	return jsonloader.New()
}

// loadOnce feeds one document to l and returns what it published (nil when nothing).
func loadOnce(l c16Loader, text []byte) (*config.ServerConfig, error) {
	type res struct{ err error }
	done := make(chan res, 1)
	go func() { done <- res{l.Unmarshal(text)} }()
	var got *config.ServerConfig
	for {
		select {
		case c := <-l.Config():
			cc := c
			got = &cc
		case r := <-done:
			// drain a value published just before returning
			select {
			case c := <-l.Config():
				cc := c
				got = &cc
			default:
			}
			return got, r.err
		}
	}
}

func c16Seq(c *Ctx, format string, seq []int, docs []config.ServerConfig, fresh map[int]*config.ServerConfig, full bool) {
	c.R.Eval()
	cs := c16Case{Format: format, Seq: seq}
	c.Cur(cs)
	fail := func(kind, what string) {
		c.R.ViolateMin(format+"/"+kind, fmt.Sprintf("%s; %s documents %v", what, format, seq), cs, len(seq))
	}
	l := newC16Loader(format)
	type pub struct {
		val  *config.ServerConfig
		snap config.ServerConfig
		doc  int
	}
	var pubs []pub
	lastGood := -1
	var rw *rworld
	defer func() {
		if rw != nil {
			rw.stop()
		}
	}()
	goodDocs := map[int]bool{}
	for step, d := range seq {
		got, err := loadOnce(l, c16Text(format, d, docs))
		want := fresh[d]
		if want == nil {
			if got != nil {
				fail("published-on-failure", fmt.Sprintf("step %d: document %d fails to load on a fresh loader but a value was published here (err=%v)", step, d, err))
				return
			}
			if err == nil {
				fail("no-error", fmt.Sprintf("step %d: document %d loads without error here but fails on a fresh loader", step, d))
				return
			}
		} else {
			if err != nil || got == nil {
				fail("reload-fails", fmt.Sprintf("step %d: document %d loads on a fresh loader but not after %v (err=%v)", step, d, seq[:step], err))
				return
			}
			if !reflect.DeepEqual(*got, *want) {
				fail("differs-from-fresh", fmt.Sprintf("step %d: the configuration published for document %d after loading %v differs from what a fresh loader publishes: %s", step, d, seq[:step], cfgDiff(*got, *want)))
				return
			}
			pubs = append(pubs, pub{val: got, snap: deepCopyCfg(*got), doc: d})
			lastGood = d
			goodDocs[d] = true
		}
		for _, p := range pubs {
			if !reflect.DeepEqual(*p.val, p.snap) {
				fail("published-modified", fmt.Sprintf("step %d: the value published earlier for document %d was modified by loading document %d: %s", step, p.doc, d, cfgDiff(*p.val, p.snap)))
				return
			}
		}
		// behaviour through a real loader.Loader + server
		if full && got != nil {
			if rw == nil {
				var e error
				rw, e = newRWorld(*got, nil, false)
				if e != nil {
					panic(e)
				}
			} else {
				rw.reload(*got)
			}
		}
		if full && rw != nil && lastGood >= 0 {
			if m := c16Behaviour(c, rw, docs[lastGood]); m != "" {
				fail("behaviour", fmt.Sprintf("step %d (last good document %d): %s", step, lastGood, m))
				return
			}
		}
	}
	if len(goodDocs) >= 2 {
		c.R.Distinct(evid.Hash(format, fmt.Sprint(seq)))
	}
}

// c16Lazy: the consumer has not yet collected the value published by step i when step i+1 (a document that fails to
// load) is fed to the same loader: the published value must still be there afterwards ("a load that fails leaves the
// last good configuration in force", "a configuration already published is not modified").
func c16Lazy(c *Ctx, format string, seq []int, i int, docs []config.ServerConfig, fresh map[int]*config.ServerConfig) {
	c.R.Eval()
	cs := c16Case{Format: format, Seq: seq, Lazy: i + 1}
	c.Cur(cs)
	l := newC16Loader(format)
	for k := 0; k < i; k++ {
		loadOnce(l, c16Text(format, seq[k], docs))
	}
	if err := l.Unmarshal(c16Text(format, seq[i], docs)); err != nil {
		return // C16's eager plane owns this
	}
	// the value is now sitting in the hand-off channel; feed the failing document
	if err := l.Unmarshal(c16Text(format, seq[i+1], docs)); err == nil {
		return // (it loaded here although it fails on a fresh loader: the eager plane reports that)
	}
	select {
	case got := <-l.Config():
		if !reflect.DeepEqual(got, *fresh[seq[i]]) {
			c.R.ViolateMin(format+"/pending-published-modified", fmt.Sprintf("the configuration published for document %d and not yet collected was changed by the failed load of document %d: %s; %s documents %v",
				seq[i], seq[i+1], cfgDiff(got, *fresh[seq[i]]), format, seq[:i+2]), cs, i+2)
		}
	default:
		c.R.ViolateMin(format+"/pending-published-lost", fmt.Sprintf("the configuration published for document %d was still waiting to be collected when document %d failed to load, and is gone: the last good configuration is no longer in force; %s documents %v",
			seq[i], seq[i+1], format, seq[:i+2]), cs, i+2)
	}
	c.R.Distinct(evid.Hash("lazy", format, fmt.Sprint(seq[:i+2])))
}

// c16Behaviour checks the two outcomes that distinguish the documents, against the document itself.
func c16Behaviour(c *Ctx, rw *rworld, doc config.ServerConfig) string {
	denied := len(doc.PrefixDeny) > 0
	_, _, err := rw.Loader.Get(context.Background(), srvx.Addr4(10, 9, 1, 1, 99))
	if denied && err == nil {
		return "an address inside the document's prefix_deny is served"
	}
	if !denied && err != nil {
		return "an address that only a removed prefix_deny blocked is still refused: " + err.Error()
	}
	// a client that only the second scope covers is served exactly when the document lists that scope and assigns a user to it
	wantS2 := false
	for _, sc := range doc.Secrets {
		if sc.Name == "s2" {
			for _, u := range doc.Users {
				for _, us := range u.Scopes {
					if us == "s2" {
						wantS2 = true
					}
				}
			}
		}
	}
	secret2, _, err2 := rw.Loader.Get(context.Background(), srvx.Addr4(192, 168, 1, 1, 99))
	if wantS2 && (err2 != nil || string(secret2) != "key-two") {
		return fmt.Sprintf("a client of the second scope, which the document lists with a user, is not served with its key (secret %q, err %v)", secret2, err2)
	}
	if !wantS2 && err2 == nil {
		return fmt.Sprintf("a client that only the second scope covers is served with secret %q although the document gives that scope no user (or does not list it)", secret2)
	}
	// command authorization only the administrator holds: configure terminal, asked as guest and as admin
	conn, e := rw.W.Open(srvx.Addr4(10, 1, 1, 1, 99))
	if e != nil {
		c.Abort("hang", e.Error(), nil)
	}
	defer conn.FeedEOF()
	if conn.Closed() {
		return "a client inside the first scope is refused"
	}
	ask := func(user string, sid uint32, cmd, arg string) int {
		m := ref.NewMsg()
		m.N["authen_method"], m.N["priv_lvl"], m.N["authen_type"], m.N["authen_service"] = 6, 1, 1, 1
		m.S["user"] = []byte(user)
		m.Args = [][]byte{[]byte("service=shell"), []byte("cmd=" + cmd)}
		if arg != "" {
			m.Args = append(m.Args, []byte("cmd-arg="+arg))
		}
		body, _ := ref.AuthorRequest.Encode(m)
		h := ref.Header{Version: 0xc0, Type: 2, Seq: 1, Session: sid}
		if _, err := rw.W.Deliver(conn, ref.Packet(h, []byte("key-one"), body)); err != nil {
			c.Abort("hang", err.Error(), nil)
		}
		pk, _ := srvx.ParseStream(conn.Take())
		if len(pk) != 1 {
			return -1
		}
		rm, cl := ref.AuthorReply.Decode(ref.Obfuscate(pk[0].H, []byte("key-one"), pk[0].Body))
		if cl != ref.Exact {
			return -2
		}
		return rm.N["status"]
	}
	want := func(user, cmd, arg string) int {
		for _, u := range doc.Users {
			if u.Name == user {
				rules := []ref.Rule{}
				for _, cm := range u.Commands {
					rules = append(rules, ref.Rule{Name: cm.Name, Action: int(cm.Action), Match: cm.Match})
				}
				for _, g := range u.Groups {
					for _, cm := range g.Commands {
						rules = append(rules, ref.Rule{Name: cm.Name, Action: int(cm.Action), Match: cm.Match})
					}
				}
				if ref.EvalCommand(rules, cmd, arg).Permit {
					return 1
				}
				return 0x10
			}
		}
		return 0x10
	}
	// ... and commands that only the group grants (ping, traceroute), asked as its members and as a non-member
	probes := [][3]string{{"guest", "configure", "terminal"}, {"admin", "configure", "terminal"}, {"admin", "ping", ""}, {"admin", "ping", "10.1.1.1"},
		{"third", "ping", ""}, {"third", "traceroute", ""}, {"admin", "traceroute", ""}, {"guest", "ping", ""}, {"guest", "show", "version"}}
	for i, p := range probes {
		if got, w := ask(p[0], uint32(0x1600+i), p[1], p[2]), want(p[0], p[1], p[2]); got != w {
			return fmt.Sprintf("authorization of '%s %s' for %s answered status %#x, the document says %#x", p[1], p[2], p[0], got, w)
		}
	}
	return ""
}

func cfgDiff(a, b config.ServerConfig) string {
	ja, _ := json.Marshal(a)
	jb, _ := json.Marshal(b)
	i := firstDiff(ja, jb)
	lo := i - 60
	if lo < 0 {
		lo = 0
	}
	hi := func(x []byte) int {
		if i+80 < len(x) {
			return i + 80
		}
		return len(x)
	}
	return fmt.Sprintf("got …%s… want …%s…", ja[lo:hi(ja)], jb[lo:hi(jb)])
}

func c16Run(c *Ctx) {
	docs := c16Docs()
	depth := tierPick(c.Quick, 3, 4)
	for _, format := range []string{"yaml", "json"} {
		fresh := map[int]*config.ServerConfig{}
		for i := range docs {
			got, err := loadOnce(newC16Loader(format), c16Text(format, i, docs))
			if err == nil && got != nil {
				fresh[i] = got
			}
		}
		if len(fresh) < 8 {
			panic(fmt.Sprintf("C16 generator: only %d documents load on a fresh %s loader", len(fresh), format))
		}
		for n := 1; n <= depth; n++ {
			enum.Explore(enum.Opts{MaxDev: -1, ShardDepth: 1 + n/3, ShardK: c.K, ShardN: c.N}, func(ch *enum.C) {
				seq := make([]int, n)
				for i := range seq {
					seq[i] = ch.Choose(len(docs))
				}
				if c.Expired() {
					return
				}
				c16Seq(c, format, seq, docs, fresh, n <= 3)
				for i := 0; i+1 < len(seq); i++ {
					if fresh[seq[i]] != nil && fresh[seq[i+1]] == nil {
						c16Lazy(c, format, seq, i, docs, fresh)
					}
				}
				if c.R.Evaluations%701 == 0 {
					c.R.SampleCap(6, c16Case{Format: format, Seq: seq})
				}
			})
		}
		// file plane: every sequence of <= 3 (4) rewrites of one path over 4 texts x {modification time moves on, pinned}
		fdepth := tierPick(c.Quick, 3, 4)
		for n := 1; n <= fdepth; n++ {
			enum.Explore(enum.Opts{MaxDev: -1, ShardDepth: 1, ShardK: c.K, ShardN: c.N}, func(ch *enum.C) {
				ops := make([]c16FileOp, n)
				for i := range ops {
					k := ch.Choose(8)
					ops[i] = c16FileOp{Text: k / 2, SameMtime: k%2 == 1}
				}
				if c.Expired() {
					return
				}
				c16Files(c, format, ops, docs)
			})
		}
	}
}

func c16Replay(c *Ctx, raw json.RawMessage) {
	var cs c16Case
	if err := json.Unmarshal(raw, &cs); err != nil {
		panic(err)
	}
	docs := c16Docs()
	if len(cs.Files) > 0 {
		c16Files(c, cs.Format, cs.Files, docs)
		return
	}
	fresh := map[int]*config.ServerConfig{}
	for i := range docs {
		got, err := loadOnce(newC16Loader(cs.Format), c16Text(cs.Format, i, docs))
		if err == nil && got != nil {
			fresh[i] = got
		}
	}
	if cs.Lazy > 0 {
		c16Lazy(c, cs.Format, cs.Seq, cs.Lazy-1, docs, fresh)
		return
	}
	c16Seq(c, cs.Format, cs.Seq, docs, fresh, true)
}
