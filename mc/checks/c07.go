package checks

import (
	"encoding/json"
	"fmt"
	"strings"

	"verif/mc/enum"
	"verif/mc/evid"
	"verif/mc/ref"
	"verif/mc/srvx"
)

// C07: one request, one reply; rejected requests get no handler and a closed connection.
// Engine E3-R: histories over the reference server's real handlers.

func init() {
	Registry["C07"] = &Check{
		Spec: func(tier string) evid.Spec {
			d := 3
			if tier != "quick" {
				d = 4
			}
			return evid.Spec{ID: "C07", Level: "model_checking", Exhaustive: true,
				Rule: fmt.Sprintf("all histories of depth <= %d (depth %d over a reduced alphabet in the thorough tier) on one connection of the full reference server (real loader, Start handler, ASCII/PAP handlers, bcrypt, stringy, local accounter) over an alphabet of ~85 abstract packets: "+
					"ASCII START (user empty/known/unknown), PAP START (good/bad/empty password), unrouted STARTs, CONTINUE (user, password, junk, empty, abort), command and session authorization (permitted/denied/other user), accounting (start/stop/watchdog/invalid flags), "+
					"undecodable bodies per type, trailing garbage, each on session A or B; sequence choices {expected, same, lower, even, jump, 255} on three kinds; rejected forms (invalid version, type, sequence 0, length 65537, wrong key). "+
					"Plus all histories of depth <= 3 over 12 packets mixing ordinary requests with user names, messages and arguments outside US-ASCII (well-formed UTF-8 and not) on every AAA path, and over 9 packets carrying the longest user names, messages and arguments the layouts allow (255 octets; 65511, 65512 and 65530 octets in a CONTINUE). Plus 5 accepted requests x 8 kinds of bytes behind them in the same segment (a valid request, four header forms that end the connection, a header whose body never comes, half a header, a wrong-key packet): the first packet written is the reply to the accepted request; and the same requests from a client that stops reading before its reply is written, resumes and sends a second request: exactly the two whole replies. Configurations: keychain-backed user with a working and with a failing keychain; and all histories of depth <= 2 over ~110 packets aimed at the odd user/authenticator/accounter/policy shapes of the C14 configurations under three keychain behaviours. Oracle per request, from the connection-loop model: accepted => exactly one handler invocation and exactly one packet "+
					"(none iff numbered 255) before the next read, connection stays open; rejected => no handler invocation, at most one packet, connection closed. states = distinct loop-model states, transitions = packets delivered", d, d),
				Assumptions: []string{"accept/reject is decided by mc/ref/connmodel.go; the only handler-dependent input of the model is whether the invoked handler registered a continuation (observed through a wrapping Response)",
					"for bodies in the indeterminate key-mismatch class either complete behaviour is accepted (C19 owns that boundary)"}}
		},
		Workers: constInt(16, 16),
		Run:     c07Run,
		Replay:  c07Replay,
	}
}

type rCase struct {
	Env    string `json:"env,omitempty"` // "" main configuration, "odd" the C14 odd-shapes configuration
	KC     string `json:"keychain_mode"`
	Scope  string `json:"scope"`
	Hist   []rPkt `json:"history"`
	Tokens bool   `json:"tokens,omitempty"`
}

func c07Alphabet(e *rEnv, reduced bool) []rPkt {
	var a []rPkt
	for sid := 0; sid < 2; sid++ {
		base := []rPkt{
			{Kind: "ascii", User: ""}, {Kind: "ascii", User: "own"}, {Kind: "ascii", User: "nobody"},
			{Kind: "pap", User: "own", Pw: e.Sec.Own}, {Kind: "pap", User: "own", Pw: "wrong"}, {Kind: "pap", User: "own", Pw: ""},
			{Kind: "start", Action: 1, AType: 3, Service: 1, Minor: 1, User: "own", Pw: "chapdata"},
			{Kind: "start", Action: 1, AType: 2, Service: 1, Minor: 0, User: "own", Pw: e.Sec.Own},
			{Kind: "cont", Msg: "own"}, {Kind: "cont", Msg: e.Sec.Own}, {Kind: "cont", Msg: "junk"}, {Kind: "cont", Msg: ""}, {Kind: "cont", Msg: "own", Abort: true},
			{Kind: "author", User: "own", Args: []string{"service=shell", "cmd=show"}},
			{Kind: "author", User: "own", Args: []string{"service=shell", "cmd=reload"}},
			{Kind: "author", User: "nobody", Args: []string{"service=shell", "cmd=show"}},
			{Kind: "author", User: "own", Args: []string{"service=ppp", "protocol=ip"}},
			{Kind: "author", User: "OWN", Args: []string{"service=shell", "cmd=show"}}, // resembles a user but is not one
			{Kind: "acct", User: "Own", Flags: 2}, {Kind: "pap", User: "OWN", Pw: e.Sec.Own},
			{Kind: "acct", User: "own", Flags: 2}, {Kind: "acct", User: "own", Flags: 4}, {Kind: "acct", User: "own", Flags: 8}, {Kind: "acct", User: "noauth", Flags: 2},
			{Kind: "rawbody", Action: 1, Raw: "0901010100000000"},     // authentication: lengths consistent, action 9 invalid
			{Kind: "rawbody", Action: 2, Raw: "7701010100000000"},     // authorization: method 0x77 invalid
			{Kind: "rawbody", Action: 3, Raw: "0c0601010100000000"},   // accounting: stop+watchdog
			{Kind: "rawbody", Action: 1, Raw: "01010101000000007a7a"}, // START with two trailing bytes
		}
		if e.KCMode != "" {
			base = append(base, rPkt{Kind: "pap", User: "keychain", Pw: e.Sec.Keychain}, rPkt{Kind: "ascii", User: "keychain"}, rPkt{Kind: "cont", Msg: e.Sec.Keychain})
		}
		if reduced {
			base = []rPkt{base[0], base[1], base[3], base[8], base[9], base[12], base[13], base[17], base[21]}
			if e.KCMode != "" {
				base = append(base, rPkt{Kind: "pap", User: "keychain", Pw: e.Sec.Keychain}, rPkt{Kind: "ascii", User: "keychain"}, rPkt{Kind: "cont", Msg: e.Sec.Keychain})
			}
		}
		for _, p := range base {
			p.Sid = sid
			a = append(a, p)
		}
		for _, mode := range []string{"same", "lower", "even", "jump", "255"} {
			for _, p := range []rPkt{{Kind: "ascii", User: ""}, {Kind: "cont", Msg: "own"}, {Kind: "author", User: "own", Args: []string{"service=shell", "cmd=show"}}} {
				if reduced && (mode == "lower" || mode == "jump") {
					continue
				}
				p.Sid, p.SeqMode = sid, mode
				a = append(a, p)
			}
		}
	}
	if !reduced {
		a = append(a,
			rPkt{Kind: "ascii", User: "own", Mut: &rMut{HdrOff: 1, HdrVal: 0xd0}},
			rPkt{Kind: "ascii", User: "own", Mut: &rMut{HdrOff: 2, HdrVal: 4}},
			rPkt{Kind: "ascii", User: "own", Mut: &rMut{HdrOff: 3, HdrVal: 0}},
			rPkt{Kind: "ascii", User: "own", Mut: &rMut{LenSet: 65537}},
			rPkt{Kind: "wrongkey"},
		)
	} else {
		a = append(a, rPkt{Kind: "wrongkey"})
	}
	return a
}

func init() {
	// "wrongkey" is an ASCII START obfuscated with another key
}

// c07Oracle checks one step; returns "" when the property holds for it.
func c07Oracle(s stepInfo) (kind, msg string) {
	if s.Class == "misframed" {
		return "", ""
	}
	nReplies := 0
	for _, cl := range s.Calls {
		nReplies += len(cl.Replies)
	}
	v := s.Verdict
	accepted := v.Accept
	if v.EitherRejectOrEntry && len(s.Calls) == 0 {
		accepted = false
	}
	if !accepted {
		if len(s.Calls) != 0 {
			return "rejected-handled", fmt.Sprintf("a request the loop must reject (seq %d, class %s) reached a handler", s.H.Seq, s.Class)
		}
		if len(s.Packets) > 1 || s.Stray != 0 {
			return "rejected-many", fmt.Sprintf("rejected request answered with %d packets and %d stray bytes", len(s.Packets), s.Stray)
		}
		if !s.Closed {
			return "rejected-open", fmt.Sprintf("rejected request (seq %d, class %s) left the connection open", s.H.Seq, s.Class)
		}
		return "", ""
	}
	if len(s.Calls) != 1 {
		return "handler-count", fmt.Sprintf("accepted request caused %d handler invocations", len(s.Calls))
	}
	_ = nReplies // (the number of Reply calls is not part of the oracle: a failed Reply may be followed by an error reply; what counts is the wire)
	want := 1
	if s.H.Seq == 255 {
		want = 0
	}
	if len(s.Packets) != want || s.Stray != 0 {
		return fmt.Sprintf("packets-%d", len(s.Packets)), fmt.Sprintf("accepted request numbered %d was answered with %d packets (+%d stray bytes) before the next read, want %d", s.H.Seq, len(s.Packets), s.Stray, want)
	}
	if s.Closed {
		return "accepted-closed", "connection closed after an accepted request"
	}
	return "", ""
}

// rExplore enumerates all histories up to depth over alpha on one connection of a world built from e.
func rExplore(c *Ctx, e *rEnv, alpha []rPkt, depth int, keepLog bool, scope string, onStep func(hist []rPkt, s stepInfo) (string, string), onEnd func(hist []rPkt)) {
	rExploreOpt(c, e, alpha, depth, keepLog, scope, false, onStep, onEnd)
}

func rExploreOpt(c *Ctx, e *rEnv, alpha []rPkt, depth int, keepLog bool, scope string, tokens bool, onStep func(hist []rPkt, s stepInfo) (string, string), onEnd func(hist []rPkt)) {
	rw, err := newRWorld(e.Cfg, e.KC, keepLog)
	if err != nil {
		panic(err)
	}
	defer rw.stop()
	shardDepth := 2
	if depth < 2 {
		shardDepth = 1
	}
	enum.Explore(enum.Opts{MaxDev: -1, ShardDepth: shardDepth, ShardK: c.K, ShardN: c.N}, func(ch *enum.C) {
		if c.Expired() {
			return
		}
		rc, err := rw.openR(e, scope)
		if err != nil {
			c.Abort("hang", err.Error(), nil)
		}
		var hist []rPkt
		ok := true
		for d := 0; d < depth && rc.M.Open; d++ {
			p := alpha[ch.Choose(len(alpha))]
			hist = append(hist, p)
			c.Cur(rCase{Env: e.Name, KC: e.KCMode, Scope: scope, Hist: hist, Tokens: tokens})
			info, err := rw.deliverR(rc, d, p)
			if err != nil {
				c.Abort("hang", fmt.Sprintf("%v after %s", err, rHistString(hist)), rCase{KC: e.KCMode, Scope: scope, Hist: hist})
			}
			c.R.Trans(1)
			c.R.State(evid.Hash(rc.M.Key()))
			if kind, msg := onStep(hist, info); msg != "" {
				c.R.ViolateMin(kind, fmt.Sprintf("history %s (keychain=%q): step %d: %s", rHistString(hist), e.KCMode, d, msg), rCase{Env: e.Name, KC: e.KCMode, Scope: scope, Hist: append([]rPkt{}, hist...), Tokens: tokens}, len(hist))
				ok = false
				break
			}
			if info.Closed {
				break
			}
		}
		if !rc.C.Closed() {
			rc.C.FeedEOF()
		}
		c.R.Eval()
		if ok {
			c.R.Trace()
			if len(hist) > 1 {
				c.R.Distinct(evid.Hash(rHistString(hist), e.KCMode))
			}
			if onEnd != nil {
				onEnd(hist)
			}
			if c.R.Evaluations%5003 == 0 {
				c.R.SampleCap(6, rHistString(hist))
			}
		}
	})
}

func c07Run(c *Ctx) {
	step := func(hist []rPkt, s stepInfo) (string, string) { return c07Oracle(s) }
	depth := 3
	eOK := newREnv(defaultSecrets(), "ok")
	rExplore(c, eOK, c07Alphabet(eOK, false), depth, false, "s1", step, nil)
	// names and messages outside US-ASCII (well-formed UTF-8 and not), on every AAA path, mixed with ordinary packets
	{
		utf := "j\xc3\xb6rg"
		small := []rPkt{{Kind: "ascii", User: ""}, {Kind: "cont", Msg: "own"}, {Kind: "author", User: "own", Args: []string{"service=shell", "cmd=show"}},
			{Kind: "author", User: utf, Args: []string{"service=shell", "cmd=show"}}, {Kind: "author", User: utf, Args: []string{"service=ppp", "protocol=ip"}},
			{Kind: "acct", User: utf, Flags: 2}, {Kind: "pap", User: utf, Pw: "x"}, {Kind: "ascii", User: utf}, {Kind: "cont", Msg: utf},
			{Kind: "author", User: "own\xff", Args: []string{"service=shell", "cmd=show"}}, {Kind: "acct", User: "\xfe", Flags: 4},
			{Kind: "author", User: "own", Args: []string{"service=shell", "cmd=sh\xc3\xb6w"}}}
		rExplore(c, eOK, small, 3, false, "s1", step, nil)
		// the longest user names and messages the layouts can carry (what a reply echoes back must still fit the reply)
		long := []rPkt{{Kind: "ascii", User: ""}, {Kind: "ascii", User: strings.Repeat("n", 255)}, {Kind: "cont", Msg: strings.Repeat("u", 65511)}, {Kind: "cont", Msg: strings.Repeat("u", 65512)},
			{Kind: "cont", Msg: strings.Repeat("u", 65530)}, {Kind: "cont", Msg: "x"}, {Kind: "pap", User: strings.Repeat("n", 255), Pw: strings.Repeat("p", 255)},
			{Kind: "author", User: strings.Repeat("n", 255), Args: []string{"service=shell", "cmd=" + strings.Repeat("c", 251)}}, {Kind: "acct", User: strings.Repeat("n", 255), Flags: 2}}
		rExplore(c, eOK, long, 3, false, "s1", step, nil)
	}
	// coalesced delivery: an accepted request with the client's next bytes behind it in one segment
	{
		rw, err := newRWorld(eOK.Cfg, eOK.KC, false)
		if err != nil {
			panic(err)
		}
		job := 0
		for ai := range c07CoFirsts(eOK) {
			for _, bh := range c07Behinds {
				job++
				if c.Mine(job) {
					c07Coalesced(c, rw, eOK, c07Co{A: ai, Behind: bh})
				}
			}
		}
		rw.stop()
	}
	eErr := newREnv(defaultSecrets(), "err")
	rExplore(c, eErr, c07Alphabet(eErr, true), depth, false, "s1", step, nil)
	// every AAA path of the odd user/authenticator/accounter/policy shapes (the C14 configurations), depth 2
	for _, mode := range []string{"ok", "err", "nil"} {
		eOdd := newC14Env(mode)
		var alpha []rPkt
		for _, k := range c14Kinds(eOdd) {
			alpha = append(alpha, k)
		}
		alpha = append(alpha, rPkt{Kind: "cont", Msg: "noopts"}, rPkt{Kind: "cont", Msg: "emptyhash"}, rPkt{Kind: "cont", Msg: "keyonly"}, rPkt{Kind: "ascii", User: "", Sid: 1})
		rExplore(c, eOdd, alpha, 2, false, "s1", step, nil)
		if mode == "ok" {
			rExplore(c, eOdd, alpha, 1, false, "s3", step, nil)
		}
	}
	if !c.Quick {
		rExplore(c, eOK, c07Alphabet(eOK, true), 4, false, "s1", step, nil)
	}
}

func rReplay(c *Ctx, raw json.RawMessage, keepLog bool, onStep func(hist []rPkt, s stepInfo) (string, string)) {
	var cs rCase
	if err := json.Unmarshal(raw, &cs); err != nil {
		panic(err)
	}
	sec := defaultSecrets()
	if cs.Tokens {
		sec = tokenSecrets(c.Seed)
	}
	if cs.Env == "odd" {
		rReplayEnv(c, newC14Env(cs.KC), cs, keepLog, onStep)
		return
	}
	rReplayEnv(c, newREnv(sec, cs.KC), cs, keepLog, onStep)
}

func rReplayEnv(c *Ctx, e *rEnv, cs rCase, keepLog bool, onStep func(hist []rPkt, s stepInfo) (string, string)) {
	rw, err := newRWorld(e.Cfg, e.KC, keepLog)
	if err != nil {
		panic(err)
	}
	defer rw.stop()
	if cs.Scope == "" {
		cs.Scope = "s1"
	}
	rc, err := rw.openR(e, cs.Scope)
	if err != nil {
		c.Abort("hang", err.Error(), cs)
	}
	for d, p := range cs.Hist {
		info, err := rw.deliverR(rc, d, p)
		if err != nil {
			c.Abort("hang", err.Error(), cs)
		}
		if kind, msg := onStep(cs.Hist[:d+1], info); msg != "" {
			c.R.Violate(kind, fmt.Sprintf("history %s: step %d: %s", rHistString(cs.Hist[:d+1]), d, msg), cs)
			return
		}
		if info.Closed {
			break
		}
	}
}

// c07Co: request A and what the client has already sent behind it arrive in ONE segment.
type c07Co struct {
	A      int    `json:"coalesced_first"`
	Behind string `json:"behind"`
}

func c07CoFirsts(e *rEnv) []rPkt {
	return []rPkt{{Kind: "author", User: "own", Args: []string{"service=shell", "cmd=show"}}, {Kind: "pap", User: "own", Pw: e.Sec.Own}, {Kind: "acct", User: "own", Flags: 2},
		{Kind: "ascii", User: ""}, {Kind: "author", User: "nobody", Args: []string{"service=shell", "cmd=show"}}}
}

var c07Behinds = []string{"slow-reader", "valid", "bad-version", "even-seq", "seq-0", "oversize", "header-only", "partial-header", "wrong-key"}

// c07Coalesced: an accepted request is answered with exactly one reply before the server turns to whatever follows it -
// a valid request, one that ends the connection, or one that never completes.
func c07Coalesced(c *Ctx, rw *rworld, e *rEnv, cs c07Co) {
	c.R.Eval()
	c.Cur(cs)
	rc, err := rw.openR(e, "s1")
	if err != nil {
		c.Abort("hang", err.Error(), cs)
	}
	defer func() {
		if !rc.C.Closed() {
			rc.C.FeedEOF()
		}
	}()
	a := c07CoFirsts(e)[cs.A]
	typ, minor, body := a.body()
	ha := ref.Header{Version: 0xc0 | minor, Type: typ, Seq: 1, Session: 0xc0a1e5ce}
	wire := ref.Packet(ha, rc.Key, body)
	nb := minimalRequest(2)
	hb := ref.Header{Version: 0xc0, Type: 2, Seq: 1, Session: 0xc0a1e5cf}
	key := rc.Key
	switch cs.Behind {
	case "bad-version":
		hb.Version = 0x10
	case "even-seq":
		hb.Seq = 2
	case "seq-0":
		hb.Seq = 0
	case "wrong-key":
		key = []byte("some other key")
		nb = []byte{0xff, 0xff, 0xff, 0xff, 0xff, 0xff, 0xff, 0xff, 0xff}
	}
	if cs.Behind == "slow-reader" {
		// the client stops reading before the reply to A is written and resumes later, then sends a second request
		rc.C.StallWrites()
		rc.C.Feed(wire)
		if _, ok := rc.C.WaitSettled(srvx.HangTimeout); !ok {
			c.Abort("hang", "the server neither wrote nor went idle for a client that stopped reading", cs)
		}
		rc.C.ReleaseWrites()
		if _, ok := rc.C.WaitIdleTimeout(srvx.HangTimeout); !ok {
			c.Abort("hang", "the server did not go idle after the client resumed reading", cs)
		}
		if !rc.C.Closed() {
			if _, err := rw.W.Deliver(rc.C, ref.Packet(hb, key, nb)); err != nil {
				c.Abort("hang", err.Error(), cs)
			}
		}
		c.R.Trans(2)
		pk, rest := srvx.ParseStream(rc.C.Take())
		if len(rest) != 0 || len(pk) != 2 || pk[0].H.Session != ha.Session || pk[0].H.Seq != 2 || pk[1].H.Session != hb.Session || pk[1].H.Seq != 2 {
			c.R.ViolateMin("slow-reader/one-reply-each", fmt.Sprintf("request %s from a client that stopped reading for a while, then a second request: %d whole packets and %d stray bytes on the wire (%d writes ended in a timeout after a partial write), want exactly the two replies",
				a.String(), len(pk), len(rest), rc.C.TornWrites()), cs, 1)
			return
		}
		c.R.Distinct(evid.Hash("co", cs))
		c.R.Trace()
		return
	}
	next := ref.Packet(hb, key, nb)
	switch cs.Behind {
	case "oversize":
		next = next[:12]
		next[8], next[9], next[10], next[11] = 0, 1, 0, 1
	case "header-only":
		next = next[:12]
	case "partial-header":
		next = next[:5]
	}
	if _, err := rw.W.Deliver(rc.C, append(append([]byte{}, wire...), next...)); err != nil {
		c.Abort("hang", err.Error(), cs)
	}
	c.R.Trans(2)
	pk, _ := srvx.ParseStream(rc.C.Take())
	if len(pk) == 0 || pk[0].H.Session != ha.Session || pk[0].H.Seq != 2 || pk[0].H.Type != typ {
		got := "nothing"
		if len(pk) > 0 {
			got = fmt.Sprintf("a packet of session %#x numbered %d", pk[0].H.Session, pk[0].H.Seq)
		}
		c.R.ViolateMin("coalesced/reply-to-accepted-request-missing", fmt.Sprintf("request %s was accepted (valid header, number 1, right key) with %q behind it in the same segment; by the time the server had dealt with what followed (or was waiting for more of it) the first packet written was %s, want its reply numbered 2",
			a.String(), cs.Behind, got), cs, 1)
		return
	}
	c.R.Distinct(evid.Hash("co", cs))
	c.R.Trace()
}

func c07Replay(c *Ctx, raw json.RawMessage) {
	var co c07Co
	if json.Unmarshal(raw, &co) == nil && co.Behind != "" {
		e := newREnv(defaultSecrets(), "ok")
		rw, err := newRWorld(e.Cfg, e.KC, false)
		if err != nil {
			panic(err)
		}
		defer rw.stop()
		c07Coalesced(c, rw, e, co)
		return
	}
	rReplay(c, raw, false, func(hist []rPkt, s stepInfo) (string, string) { return c07Oracle(s) })
}
