//go:build !sched

package checks

import "github.com/facebookincubator/tacquito/cmds/server/config"

// cfgChan is the channel type of the loader's configuration seam (a real channel in the plain build,
// the scheduler's channel in the instrumented build).
type cfgChan = chan config.ServerConfig

func mkCfgChan(n int) cfgChan { return make(chan config.ServerConfig, n) }

func cfgSend(ch cfgChan, c config.ServerConfig) { ch <- c }

func schedRun(c *Ctx) { panic("the scheduler harness exists only in the instrumented (sched) build") }

func schedReplayHook(c *Ctx, raw []byte) {
	panic("scheduler replays need the instrumented (sched) build")
}
