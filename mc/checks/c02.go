package checks

import (
	"encoding/json"
	"fmt"
	"sort"

	tq "github.com/facebookincubator/tacquito"

	"verif/mc/evid"
	"verif/mc/ref"
)

// C02: encode/decode is lossless; unrepresentable values are refused, not mangled.

func init() {
	Registry["C02"] = &Check{
		Spec: func(tier string) evid.Spec {
			return evid.Spec{ID: "C02", Level: "exploration", Exhaustive: true,
				Rule: "value-first: for every body type the product of text lengths on both sides of each wire width (8-bit: 0,1,2,254,255,256,300; 16-bit: 0,1,255,256,65535,65536,70000) x argument shapes " +
					"(counts 0,1,255,256; lengths 0,1,2,255,256) x {valid enums, one invalid neighbour per enum, a non-ASCII byte in each ASCII-only field, NotSet in START, stop+watchdog}; headers over " +
					"seq{0,1,2,255,256} x length{65535,65536,65537} x version/type valid and invalid. Oracle: (a) encode ok => decode(encode(v)) == v; (c) v outside a wire width or breaking the stated " +
					"validation rules => encode returns an error and no bytes. decode-first: every input of the C04 generator that some decoder accepts => decode(encode(decode(b))) == decode(b). " +
					"distinct_nontrivial counts distinct cases that are unrepresentable/invalid (value-first) or not byte-identical after re-encoding (decode-first)",
				Assumptions: []string{"validation rules restated from the property anchors: enum membership, ASCII-only text fields, authorization argument length 2..255, accounting argument length 0..255, sequence 1..255, length <= 65536"}}
		},
		Workers: constInt(16, 16),
		Run:     c02Run,
		Replay:  c02Replay,
	}
}

type c02Case struct {
	Kind   string   `json:"kind"` // value | header | bytes
	Msg    *msgJSON `json:"msg,omitempty"`
	Header *c02Hdr  `json:"header,omitempty"`
	Bytes  *c04Case `json:"bytes,omitempty"`
	// Then: the evaluation that follows Msg on the same process (kind "retain")
	Then *msgJSON `json:"then,omitempty"`
}

// c02Held is the previous successful round trip of this worker (see heldCodec).
var c02Held *heldCodec

type c02Hdr struct {
	Major, Minor, Type int
	Seq                int
	Flags              int
	Session            uint32
	Length             uint32
}

// representable: every length fits its wire width.
func representable(s layoutSpec, m *ref.Msg) bool {
	_, ok := s.L.Encode(m)
	return ok
}

// validBySpec restates the validation rules named by the property.
func validBySpec(s layoutSpec, m *ref.Msg) bool {
	for _, e := range s.Enums {
		ok := false
		for _, v := range e.Valid {
			if v == m.N[e.Name] {
				ok = true
			}
		}
		if !ok {
			return false
		}
	}
	ascii := func(b []byte) bool {
		for _, x := range b {
			if x > 127 {
				return false
			}
		}
		return true
	}
	for _, t := range s.Texts {
		need := t.ASCII
		if s.L.Name == "AuthenStart" && t.Name == "data" && m.N["authen_type"] == 1 {
			need = true
		}
		if need && !ascii(m.S[t.Name]) {
			return false
		}
	}
	for _, a := range m.Args {
		if !ascii(a) || len(a) < s.ArgMin || len(a) > 255 {
			return false
		}
	}
	return true
}

func c02Value(c *Ctx, s layoutSpec, m *ref.Msg) {
	c.R.Eval()
	rep, val := representable(s, m), validBySpec(s, m)
	j := msgToJSON(s.L, m)
	cs := c02Case{Kind: "value", Msg: &j}
	if len(fmt.Sprint(j)) > 4000 {
		// keep replays small: long fields are regenerated from lengths on replay
		cs = c02Case{Kind: "value", Msg: compactMsg(s, m)}
	}
	fail := func(kind, field, what string) {
		c.R.Violate(fmt.Sprintf("%s/%s/%s", s.L.Name, kind, field), fmt.Sprintf("%s: %s; value %s", s.L.Name, what, m.String()), cs)
	}
	v := toImpl(s.L, m)
	var b []byte
	var err error
	if p := safely(func() { b, err = v.MarshalBinary() }); p != "" {
		fail("panic", "encode", "encode panicked: "+p)
		return
	}
	if !rep || !val {
		c.R.Distinct(evid.Hash(s.L.Name, fmt.Sprint(j.N), lensOf(m)))
		if err == nil {
			field := offendingField(s, m)
			if !rep {
				fail("narrowed", field, fmt.Sprintf("encode accepted a value whose %s does not fit its wire length field (would be silently truncated/shifted)", field))
			} else {
				fail("unvalidated", field, fmt.Sprintf("encode accepted a value that breaks the validation rule on %s", field))
			}
		} else if len(b) != 0 {
			fail("bytes-with-error", "encode", "encode returned an error together with bytes")
		}
		if err != nil || !rep {
			return
		}
	}
	if err != nil {
		if rep && val {
			fail("refused", "encode", "encode refused a representable, valid value: "+err.Error())
		}
		return
	}
	d := emptyImpl(s.L)
	if p := safely(func() { err = d.UnmarshalBinary(b) }); p != "" {
		fail("panic", "decode", "decode panicked on the library's own encoding: "+p)
		return
	}
	if err != nil {
		fail("roundtrip", "decode-error", "decode refused the library's own encoding: "+err.Error())
		return
	}
	if diff := sameMsg(m, fromImpl(d)); diff != "" {
		fail("roundtrip", firstWord(diff), "decode(encode(v)) != v: "+diff)
		return
	}
	// identical means identical for as long as the caller holds it: the previous round trip's results survive this one
	if what := c02Held.changed(); what != "" {
		pj := compactMsg(specByName(c02Held.L.Name), c02Held.M)
		c.R.Violate("retain/"+c02Held.L.Name+"/"+firstWord(what), fmt.Sprintf("%s after %s then %s: %s", c02Held.L.Name, c02Held.M.String(), m.String(), what),
			c02Case{Kind: "retain", Msg: pj, Then: compactMsg(s, m)})
	}
	c02Held = holdCodec(s.L, m, v, b, b, d)
}

func lensOf(m *ref.Msg) string {
	s := ""
	keys := make([]string, 0, len(m.S))
	for k := range m.S {
		keys = append(keys, k)
	}
	sort.Strings(keys)
	for _, k := range keys {
		s += fmt.Sprintf("%s%d,", k, len(m.S[k]))
	}
	for _, a := range m.Args {
		s += fmt.Sprintf("a%d,", len(a))
	}
	return s
}

func offendingField(s layoutSpec, m *ref.Msg) string {
	for _, t := range s.Texts {
		max := 255
		if t.Wide {
			max = 65535
		}
		if len(m.S[t.Name]) > max {
			return t.Name
		}
	}
	if len(m.Args) > 255 {
		return "arg_cnt"
	}
	for _, a := range m.Args {
		if len(a) > 255 || len(a) < s.ArgMin {
			return "arg_len"
		}
	}
	for _, e := range s.Enums {
		ok := false
		for _, v := range e.Valid {
			if v == m.N[e.Name] {
				ok = true
			}
		}
		if !ok {
			return e.Name
		}
	}
	for _, t := range s.Texts {
		for _, x := range m.S[t.Name] {
			if x > 127 {
				return t.Name + "-ascii"
			}
		}
	}
	for _, a := range m.Args {
		for _, x := range a {
			if x > 127 {
				return "arg-ascii"
			}
		}
	}
	return "?"
}

// compactMsg stores only what is needed to rebuild a generated message (lengths, enums, marks).
func compactMsg(s layoutSpec, m *ref.Msg) *msgJSON {
	j := &msgJSON{Layout: s.L.Name, N: m.N, S: map[string]string{}}
	for k, v := range m.S {
		j.S[k] = fmt.Sprintf("#%d", len(v))
		for _, x := range v {
			if x > 127 {
				j.S[k] = fmt.Sprintf("#%d!", len(v))
				break
			}
		}
	}
	for _, a := range m.Args {
		mark := ""
		for _, x := range a {
			if x > 127 {
				mark = "!"
			}
		}
		j.Args = append(j.Args, fmt.Sprintf("#%d%s", len(a), mark))
	}
	return j
}

func expandMsg(j msgJSON) (ref.Layout, *ref.Msg) {
	s := specByName(j.Layout)
	m := ref.NewMsg()
	for k, v := range j.N {
		m.N[k] = v
	}
	for _, t := range s.Texts {
		v := j.S[t.Name]
		if len(v) > 0 && v[0] == '#' {
			var n int
			fmt.Sscanf(v, "#%d", &n)
			b := fill(t.Tag, n, true)
			if v[len(v)-1] == '!' && n > 0 {
				b[n/2] = 0xe9
			}
			m.S[t.Name] = b
		} else {
			var b []byte
			fmt.Sscanf(v, "%x", &b)
			m.S[t.Name] = b
		}
	}
	for i, a := range j.Args {
		if len(a) > 0 && a[0] == '#' {
			var n int
			fmt.Sscanf(a, "#%d", &n)
			b := argv(i, n)
			if a[len(a)-1] == '!' && n > 0 {
				b[n-1] = 0xe9
			}
			m.Args = append(m.Args, b)
		} else {
			var b []byte
			fmt.Sscanf(a, "%x", &b)
			if b == nil {
				b = []byte{}
			}
			m.Args = append(m.Args, b)
		}
	}
	return s.L, m
}

func c02Run(c *Ctx) {
	l8 := []int{0, 1, 2, 254, 255, 256, 300}
	l16 := []int{0, 1, 255, 256, 65535, 65536, 70000}
	job := 0
	for _, s := range layoutSpecs {
		var doms [][]int
		for _, t := range s.Texts {
			if t.Wide {
				doms = append(doms, l16)
			} else {
				doms = append(doms, l8)
			}
		}
		sizes := make([]int, len(doms))
		for i := range doms {
			sizes[i] = len(doms[i])
		}
		shapes := []argShape{nil}
		if s.HasArgs {
			shapes = []argShape{nil, {0}, {1}, {2}, {255}, {256}, {2, 256}, rep(255, 2), rep(256, 2), rep(256, 0)}
			if !c.Quick {
				shapes = append(shapes, rep(255, 255), rep(256, 255), argShape{2, 1, 2}, rep(300, 3))
			}
		}
		// enum variants: valid profile 0, valid profile 1, then each enum replaced by each invalid neighbour
		type variant struct {
			vals  []int
			ascii int // index of the text field that gets a non-ASCII byte (-1 none, -2 first argument)
		}
		var variants []variant
		base := func(last bool) []int {
			v := make([]int, len(s.Enums))
			for i, e := range s.Enums {
				if last {
					v[i] = e.Valid[len(e.Valid)-1]
				} else {
					v[i] = e.Valid[0]
				}
			}
			return v
		}
		variants = append(variants, variant{base(false), -1}, variant{base(true), -1})
		for i, e := range s.Enums {
			for _, bad := range e.Invalid {
				v := base(false)
				v[i] = bad
				variants = append(variants, variant{v, -1})
			}
		}
		for i := range s.Texts {
			variants = append(variants, variant{base(false), i})
		}
		if s.HasArgs {
			variants = append(variants, variant{base(false), -2})
		}
		for vi, vr := range variants {
			for _, shape := range shapes {
				job++
				if !c.Mine(job) {
					continue
				}
				if vi >= 2 && len(shape) > 2 {
					continue // invalid-enum and non-ASCII variants are crossed with the small shapes only
				}
				forEachCombo(sizes, func(idx []int) bool {
					lens := make([]int, len(idx))
					for i := range idx {
						lens[i] = doms[i][idx[i]]
					}
					m := build(s, vr.vals, lens, shape)
					if vr.ascii >= 0 {
						f := s.Texts[vr.ascii].Name
						if len(m.S[f]) == 0 {
							return true
						}
						b := fill(s.Texts[vr.ascii].Tag, len(m.S[f]), true)
						b[len(b)/2] = 0xe9
						m.S[f] = b
					}
					if vr.ascii == -2 {
						if len(m.Args) == 0 || len(m.Args[0]) == 0 {
							return true
						}
						m.Args[0][len(m.Args[0])-1] = 0xe9
					}
					c02Value(c, s, m)
					if c.R.Evaluations%20011 == 0 {
						c.R.SampleCap(4, map[string]interface{}{"direction": "value-first", "layout": s.L.Name, "value": m.String(),
							"representable": representable(s, m), "valid": validBySpec(s, m)})
					}
					return true
				})
			}
		}
	}
	// headers
	job++
	if c.Mine(job) {
		for _, maj := range []int{0xc, 0xb, 0} {
			for _, min := range []int{0, 1, 2, 15} {
				for _, typ := range []int{0, 1, 2, 3, 4} {
					for _, seq := range []int{0, 1, 2, 3, 255, 256, 257} {
						for _, ln := range []uint32{0, 65535, 65536, 65537, 0xffffffff} {
							for _, fl := range []int{0, 1, 4, 0xff} {
								c02Header(c, c02Hdr{maj, min, typ, seq, fl, 0xdeadbeef, ln})
							}
						}
					}
				}
			}
		}
	}
	// decode-first over the C04 input generator
	n := 0
	c04Inputs(c, c.Quick, func(in []byte) {
		n++
		for _, name := range decoderNames {
			c02Bytes(c, name, in)
		}
	})
}

func c02Header(c *Ctx, h c02Hdr) {
	c.R.Eval()
	valid := h.Major == 0xc && (h.Minor == 0 || h.Minor == 1) && h.Type >= 1 && h.Type <= 3 && h.Seq >= 1 && h.Seq <= 255 && h.Length <= 65536
	ih := &tq.Header{Version: tq.Version{MajorVersion: uint8(h.Major), MinorVersion: uint8(h.Minor)}, Type: tq.HeaderType(h.Type),
		SeqNo: tq.SequenceNumber(h.Seq), Flags: tq.HeaderFlag(h.Flags), SessionID: tq.SessionID(h.Session), Length: h.Length}
	hh := h
	cs := c02Case{Kind: "header", Header: &hh}
	b, err := ih.MarshalBinary()
	if !valid {
		c.R.Distinct(evid.Hash("hdr", h))
		if err == nil {
			c.R.Violate("Header/unvalidated", fmt.Sprintf("header encode accepted an invalid/unrepresentable header %+v", h), cs)
		}
		return
	}
	if err != nil {
		c.R.Violate("Header/refused", fmt.Sprintf("header encode refused a valid header %+v: %v", h, err), cs)
		return
	}
	var d tq.Header
	if err := d.UnmarshalBinary(b); err != nil {
		c.R.Violate("Header/roundtrip", fmt.Sprintf("header decode refused own encoding of %+v: %v", h, err), cs)
		return
	}
	want := *ih
	if h.Seq == 2 {
		want.Flags |= tq.SingleConnect
	}
	if d != want {
		c.R.Violate("Header/roundtrip", fmt.Sprintf("header decode(encode(h)) = %+v, want %+v", d, want), cs)
	}
}

// c02Bytes: decode ok => re-encode ok and decodes to the same value.
func c02Bytes(c *Ctx, name string, in []byte) {
	v1 := newDecoder(name)
	var err error
	if p := safely(func() { err = v1.UnmarshalBinary(append(make([]byte, 0, len(in)), in...)) }); p != "" || err != nil {
		return // C04 owns panics and rejections
	}
	c.R.Eval()
	cs := c02Case{Kind: "bytes", Bytes: &c04Case{Decoder: name, Input: fmt.Sprintf("%x", in)}}
	fail := func(kind, what string) {
		c.R.Violate(name+"/decode-first/"+kind, fmt.Sprintf("%s decode-first on %d bytes: %s", name, len(in), what), cs)
	}
	var b2 []byte
	if p := safely(func() { b2, err = v1.MarshalBinary() }); p != "" {
		fail("panic", "re-encode panicked: "+p)
		return
	}
	if err != nil {
		fail("reencode", "a value that decoded without error does not re-encode: "+err.Error())
		return
	}
	if string(b2) != string(in) {
		c.R.Distinct(evid.Hash(name, in))
	}
	v2 := newDecoder(name)
	if p := safely(func() { err = v2.UnmarshalBinary(b2) }); p != "" || err != nil {
		fail("redecode", fmt.Sprintf("re-encoded bytes do not decode: %v %s", err, p))
		return
	}
	if render(name, v1) != render(name, v2) {
		fail("unstable", "decode(encode(decode(b))) != decode(b): "+render(name, v1)+" vs "+render(name, v2))
	}
	if c.R.Evaluations%30011 == 0 {
		c.R.SampleCap(6, map[string]interface{}{"direction": "decode-first", "decoder": name, "input_hex": hx(in)})
	}
}

func c02Replay(c *Ctx, raw json.RawMessage) {
	var cs c02Case
	if err := json.Unmarshal(raw, &cs); err != nil {
		panic(err)
	}
	switch cs.Kind {
	case "value":
		l, m := expandMsg(*cs.Msg)
		c02Value(c, specByName(l.Name), m)
	case "retain":
		c02Held = nil
		l, m := expandMsg(*cs.Msg)
		c02Value(c, specByName(l.Name), m)
		l, m = expandMsg(*cs.Then)
		c02Value(c, specByName(l.Name), m)
	case "header":
		c02Header(c, *cs.Header)
	case "bytes":
		var in []byte
		fmt.Sscanf(cs.Bytes.Input, "%x", &in)
		if in == nil {
			in = []byte{}
		}
		c02Bytes(c, cs.Bytes.Decoder, in)
	}
}
