// Package checks holds one harness per property plus the parent/worker plumbing.
package checks

import (
	"encoding/json"
	"fmt"
	"os"
	"os/exec"
	"path/filepath"
	"runtime"
	"strconv"
	"strings"
	"sync"
	"sync/atomic"
	"time"

	"verif/mc/evid"
)

// Ctx is what a harness body sees.
type Ctx struct {
	ID    string
	Tier  string
	Quick bool
	Seed  int
	K, N  int // this worker's shard k of N
	R     *evid.Result
	// Deadline after which a harness must stop and mark the result capped.
	Deadline time.Time
	curPath  string
	curFile  *os.File
	savePath string
	// Param passes a sub-mode to sched-binary workers.
	Param string
	// watchdog of CurGuard
	guardAt   atomic.Int64
	guardCase atomic.Value
	guardOn   bool
}

type guardedCase struct {
	key, what string
	v         interface{}
	limit     time.Duration
}

// CurGuard is Cur plus a watchdog for code that runs in the worker's own goroutine (a decoder cannot be waited for with
// a deadline): when the case is still the current one after limit, the worker records a violation under key for it and
// stops. The limit is a termination verdict, not a performance one: callers use it for work that takes microseconds.
func (c *Ctx) CurGuard(v interface{}, key, what string, limit time.Duration) {
	c.Cur(v)
	c.guardCase.Store(guardedCase{key, what, v, limit})
	c.guardAt.Store(time.Now().UnixNano())
	if c.guardOn {
		return
	}
	c.guardOn = true
	go func() {
		for {
			time.Sleep(time.Second)
			at := c.guardAt.Load()
			g, _ := c.guardCase.Load().(guardedCase)
			if at == 0 || g.limit == 0 || time.Since(time.Unix(0, at)) < g.limit {
				continue
			}
			if c.guardAt.Load() != at {
				continue
			}
			c.Abort(g.key, fmt.Sprintf("%s (no return within %v; the worker stopped)", g.what, g.limit), g.v)
		}
	}()
}

// Unguard ends the watch of the current case.
func (c *Ctx) Unguard() { c.guardAt.Store(0) }

// Cur writes the case about to be executed ahead of executing it, so that the parent can
// turn it into a replay if this process dies.
func (c *Ctx) Cur(v interface{}) {
	if c.curPath == "" {
		return
	}
	if c.curFile == nil {
		f, err := os.OpenFile(c.curPath, os.O_CREATE|os.O_WRONLY|os.O_TRUNC, 0o644)
		if err != nil {
			return
		}
		c.curFile = f
	}
	b, _ := json.Marshal(v)
	c.curFile.WriteAt(append(b, '\n'), 0) // one syscall; stale bytes after the newline are ignored by the parent
}

// Abort records a violation that makes further exploration in this process pointless (a hung
// server side), saves what was explored so far and ends the worker.
func (c *Ctx) Abort(key, what string, replay interface{}) {
	c.R.Violate(key, what, replay)
	c.R.Capped = true
	c.R.Note("a worker stopped early after a hang; the rest of its share was not explored")
	if c.savePath == "" {
		fmt.Printf("VIOLATION property=%s replay=(replayed case)\n  key=%s\n  %s\n", c.ID, key, what)
		os.Exit(1)
	}
	c.R.Save(c.savePath)
	os.Exit(0)
}

// Expired reports whether the internal deadline passed (and marks the result capped).
func (c *Ctx) Expired() bool {
	if !c.Deadline.IsZero() && time.Now().After(c.Deadline) {
		c.R.Capped = true
		return true
	}
	return false
}

// Mine reports whether top-level item i belongs to this worker.
func (c *Ctx) Mine(i int) bool { return c.N <= 1 || i%c.N == c.K }

// Check is a registered property harness.
type Check struct {
	Spec    func(tier string) evid.Spec
	Workers func(tier string) int
	// Budget is the internal wall-clock cap; exceeding it ends the run with exhaustive:false.
	Budget func(tier string) time.Duration
	Run    func(c *Ctx)
	Replay func(c *Ctx, replay json.RawMessage)
	// SchedRun, when set, is executed by the instrumented (-race, controlled scheduler) binary.
	SchedWorkers func(tier string) int
	// Post lets the parent add to the merged result (e.g. cross-worker checks).
	Post func(c *Ctx)
}

// Registry of checks by property id.
var Registry = map[string]*Check{}

func verifDir() string {
	if d := os.Getenv("VERIF_DIR"); d != "" {
		return d
	}
	return "/verif"
}

func seed() int {
	n, _ := strconv.Atoi(os.Getenv("VERIF_SEED"))
	return n
}

// Main is the entry point of cmd/verif.
func Main(args []string) int {
	if len(args) < 3 {
		fmt.Fprintln(os.Stderr, "usage: verif check|replay|worker <id> <tier|path> [k n outdir]")
		return 2
	}
	id := args[1]
	ck := Registry[id]
	if ck == nil {
		fmt.Fprintf(os.Stderr, "unknown property %s\n", id)
		return 2
	}
	switch args[0] {
	case "check":
		return parent(id, ck, args[2])
	case "worker":
		k, _ := strconv.Atoi(args[3])
		n, _ := strconv.Atoi(args[4])
		return worker(id, ck, args[2], k, n, args[5])
	case "replay":
		return replay(id, ck, args[2])
	}
	return 2
}

func budget(ck *Check, tier string) time.Duration {
	if ck.Budget != nil {
		return ck.Budget(tier)
	}
	if tier == "quick" {
		return 150 * time.Second
	}
	return 40 * time.Minute
}

func worker(id string, ck *Check, tier string, k, n int, outdir string) int {
	c := &Ctx{ID: id, Tier: tier, Quick: tier == "quick", Seed: seed(), K: k, N: n, R: evid.NewResult(),
		Deadline: time.Now().Add(budget(ck, tier)), curPath: filepath.Join(outdir, fmt.Sprintf("w%d.cur", k)), savePath: filepath.Join(outdir, fmt.Sprintf("w%d", k)), Param: os.Getenv("VERIF_PARAM")}
	// a panic on the harness's own goroutine is a defect of the harness (generator assertion, missing metric ...),
	// not of the code under test: exit 3 = broken. Panics on server goroutines cannot be recovered here and kill
	// the process with the runtime's exit status 2; the parent turns those into crash violations.
	func() {
		defer func() {
			if r := recover(); r != nil {
				fmt.Fprintf(os.Stderr, "HARNESS PANIC: %v\n", r)
				os.Exit(3)
			}
		}()
		ck.Run(c)
	}()
	if err := c.R.Save(filepath.Join(outdir, fmt.Sprintf("w%d", k))); err != nil {
		fmt.Fprintln(os.Stderr, err)
		return 2
	}
	return 0
}

func parent(id string, ck *Check, tier string) int {
	if tier != "quick" && tier != "thorough" {
		fmt.Fprintln(os.Stderr, "tier must be quick or thorough")
		return 2
	}
	start := time.Now()
	n := 1
	if ck.Workers != nil {
		n = ck.Workers(tier)
	}
	if n > runtime.NumCPU() {
		n = runtime.NumCPU()
	}
	outdir, err := os.MkdirTemp(os.Getenv("VERIF_WORK"), "out")
	if err != nil {
		fmt.Fprintln(os.Stderr, err)
		return 2
	}
	defer os.RemoveAll(outdir)
	merged := evid.NewResult()
	broken := false
	if n > 0 {
		broken = runWorkers(id, tier, os.Args[0], n, outdir, "", merged)
	}
	if ck.SchedWorkers != nil {
		if bin := os.Getenv("VERIF_SCHED_BIN"); bin != "" {
			out2, _ := os.MkdirTemp(os.Getenv("VERIF_WORK"), "outs")
			defer os.RemoveAll(out2)
			if runWorkers(id, tier, bin, ck.SchedWorkers(tier), out2, "sched", merged) {
				broken = true
			}
		} else if os.Getenv("VERIF_SCHED_SKIP") != "" && n > 0 {
			// the tree could not be instrumented (syntax the instrumenter does not rewrite) and the scheduler plane is
			// only one of this property's planes: the others are reported, the run is not called exhaustive
			merged.Capped = true
			merged.Note("the controlled-scheduler plane was skipped: the instrumenter could not rewrite the current tree (see stderr)")
		} else {
			fmt.Fprintln(os.Stderr, "BROKEN: scheduler binary missing")
			broken = true
		}
	}
	if broken {
		// part of the exploration could not run. Whatever the healthy workers found is still real: report it
		// (exit 1); with nothing found the run says nothing and is broken (exit 2).
		if len(merged.Violations) == 0 {
			return 2
		}
		merged.Capped = true
		merged.Note("part of the exploration was broken (see stderr); the violations below come from the workers that ran")
	}
	if ck.Post != nil {
		ck.Post(&Ctx{ID: id, Tier: tier, Quick: tier == "quick", Seed: seed(), R: merged})
	}
	return evid.Finish(verifDir(), ck.Spec(tier), tier, seed(), merged, start)
}

// runWorkers spawns n subprocess workers and merges their results. A worker that dies
// (panic in a server goroutine, fatal error) becomes a violation carrying its write-ahead case.
func runWorkers(id, tier, bin string, n int, outdir, param string, merged *evid.Result) (broken bool) {
	var wg sync.WaitGroup
	var mu sync.Mutex
	for k := 0; k < n; k++ {
		wg.Add(1)
		go func(k int) {
			defer wg.Done()
			cmd := exec.Command(bin, "worker", id, tier, strconv.Itoa(k), strconv.Itoa(n), outdir)
			cmd.Env = append(os.Environ(), "GOMAXPROCS=2", "VERIF_PARAM="+param)
			if param == "sched" {
				cmd.Env = append(cmd.Env, "GOMAXPROCS=2",
					"GORACE=halt_on_error=0 history_size=7 log_path="+filepath.Join(outdir, fmt.Sprintf("race%d", k)))
			}
			errf, _ := os.Create(filepath.Join(outdir, fmt.Sprintf("w%d.stderr", k)))
			cmd.Stderr = errf
			cmd.Stdout = errf
			if err := cmd.Start(); err != nil {
				mu.Lock()
				fmt.Fprintf(os.Stderr, "BROKEN: cannot start worker: %v\n", err)
				broken = true
				mu.Unlock()
				errf.Close()
				return
			}
			killed := false
			timer := time.AfterFunc(budget(Registry[id], tier)+120*time.Second, func() { killed = true; cmd.Process.Kill() })
			err := cmd.Wait()
			timer.Stop()
			errf.Close()
			if killed {
				mu.Lock()
				fmt.Fprintf(os.Stderr, "BROKEN: worker %d exceeded its budget and was killed\n", k)
				broken = true
				mu.Unlock()
				return
			}
			mu.Lock()
			defer mu.Unlock()
			res, lerr := evid.Load(filepath.Join(outdir, fmt.Sprintf("w%d", k)))
			if lerr == nil {
				merged.Merge(res)
				return
			}
			// worker died without a result
			if ee, ok := err.(*exec.ExitError); ok && ee.ExitCode() == 3 {
				fmt.Fprintf(os.Stderr, "BROKEN: worker %d reported a harness failure:\n%s\n", k, tailFile(filepath.Join(outdir, fmt.Sprintf("w%d.stderr", k)), 3000))
				broken = true
				return
			}
			tail := tailFile(filepath.Join(outdir, fmt.Sprintf("w%d.stderr", k)), 6000)
			cur, _ := os.ReadFile(filepath.Join(outdir, fmt.Sprintf("w%d.cur", k)))
			if i := strings.IndexByte(string(cur), '\n'); i >= 0 {
				cur = cur[:i]
			}
			if len(cur) == 0 || err == nil {
				fmt.Fprintf(os.Stderr, "BROKEN: worker %d ended without result (err=%v):\n%s\n", k, err, tail)
				broken = true
				return
			}
			sig := crashSignature(tail)
			if sig == "unknown" {
				// a stack-overflow dump is far longer than the tail: the "fatal error:" line is at its beginning
				if hb, _ := os.ReadFile(filepath.Join(outdir, fmt.Sprintf("w%d.stderr", k))); len(hb) > 0 {
					if len(hb) > 20000 {
						hb = hb[:20000]
					}
					sig = crashSignature(string(hb))
				}
			}
			merged.Violate("crash:"+sig, "worker process died while executing the recorded case: "+sig,
				map[string]interface{}{"case": json.RawMessage(cur), "stderr_tail": tail})
			merged.Capped = true
			merged.Note(fmt.Sprintf("worker %d/%d crashed; its remaining share was not explored", k, n))
		}(k)
	}
	wg.Wait()
	return broken
}

func tailFile(path string, n int) string {
	b, _ := os.ReadFile(path)
	if len(b) > n {
		b = b[len(b)-n:]
	}
	return string(b)
}

// crashSignature extracts "panic: ..." plus the first repository frame from a Go crash dump.
func crashSignature(tail string) string {
	lines := strings.Split(tail, "\n")
	sig := ""
	for i, l := range lines {
		if strings.HasPrefix(l, "panic:") || strings.HasPrefix(l, "fatal error:") {
			sig = strings.TrimSpace(l)
			for _, m := range lines[i:] {
				m = strings.TrimSpace(m)
				if strings.HasPrefix(m, "github.com/facebookincubator/tacquito") {
					if j := strings.Index(m, "("); j > 0 {
						m = m[:j]
					}
					sig += " at " + m
					break
				}
			}
			break
		}
	}
	if sig == "" {
		sig = "unknown"
	}
	if len(sig) > 300 {
		sig = sig[:300]
	}
	return sig
}

func replay(id string, ck *Check, path string) int {
	b, err := os.ReadFile(path)
	if err != nil {
		fmt.Fprintln(os.Stderr, err)
		return 2
	}
	var f struct {
		Replay json.RawMessage `json:"replay"`
	}
	if err := json.Unmarshal(b, &f); err != nil {
		fmt.Fprintln(os.Stderr, err)
		return 2
	}
	if ck.Replay == nil {
		fmt.Fprintln(os.Stderr, "no replay for this property")
		return 2
	}
	// a crash replay wraps the write-ahead case together with the stderr tail of the dead worker
	var wrap struct {
		Case json.RawMessage `json:"case"`
	}
	if json.Unmarshal(f.Replay, &wrap) == nil && len(wrap.Case) > 0 {
		f.Replay = wrap.Case
	}
	c := &Ctx{ID: id, Tier: "quick", Quick: true, Seed: seed(), N: 1, R: evid.NewResult()}
	// a recorded schedule of the controlled-scheduler engine (whatever property it belongs to) is replayed by that engine
	var sj struct {
		Job     string `json:"job"`
		Choices []int  `json:"choices"`
	}
	if json.Unmarshal(f.Replay, &sj) == nil && sj.Job != "" {
		schedReplayHook(c, f.Replay)
	} else {
		ck.Replay(c, f.Replay)
	}
	for _, v := range c.R.Violations {
		fmt.Printf("VIOLATION property=%s replay=%s\n  key=%s\n  %s\n", id, path, v.Key, v.What)
	}
	if len(c.R.Violations) > 0 {
		return 1
	}
	fmt.Println("replay: property held on the recorded case")
	return 0
}

// helpers shared by harnesses

func tierPick[T any](quick bool, q, t T) T {
	if quick {
		return q
	}
	return t
}

func constInt(q, t int) func(string) int {
	return func(tier string) int {
		if tier == "quick" {
			return q
		}
		return t
	}
}

func hx(b []byte) string {
	const maxShow = 96
	if len(b) > maxShow {
		return fmt.Sprintf("%x…(%d bytes)", b[:maxShow], len(b))
	}
	return fmt.Sprintf("%x", b)
}
