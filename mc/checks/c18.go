package checks

import (
	"bytes"
	"encoding/json"
	"fmt"
	"strings"
	"sync"

	"github.com/facebookincubator/tacquito/cmds/server/config"
	reallog "github.com/facebookincubator/tacquito/cmds/server/log"

	"verif/mc/evid"
	"verif/mc/srvx"
)

// C18: passwords and shared secrets never reach the logs.

func init() {
	Registry["C18"] = &Check{
		Spec: func(tier string) evid.Spec {
			return evid.Spec{ID: "C18", Level: "model_checking", Exhaustive: true,
				Rule: "the C10 configuration with every password and both shared secrets replaced by unique VERIF_SEED-derived tokens; a recording logger implementing the handlers' logger interface (Infof/Errorf/Debugf/Record/Set) at all levels; " +
					"configuration plane: 4 configurations (main; both scopes served from one keychain entry; a third scope sharing an entry; unassigned scope + unknown handler/provider types + duplicate user) each loaded alone and reloaded over each other, every call the loader makes on the logger searched for the shared secrets, then a login served; " +
					"histories: depth <= 3 over the C10 core alphabet, depth 3 over the ASCII-login packets plus passwords containing a non-ASCII byte (which travel the decode-error paths), blank and padded user names and the password that follows them, and depth 2 over the full alphabet (x 2 session ids), plus the full START product action{1,2,4} x type{1..6} x service{0,1,2} x minor{0,1} x first sequence number{1,3,255} carrying a password token (right and, for PAP, wrong) in data, alone and followed by a CONTINUE, in a process that has first answered five STARTs carrying no data at all. " +
					"A token counts as a presented password when it travels in the data of a START whose authen_type is PAP or in the CONTINUE answering GETPASS (a token sent anywhere else, e.g. typed as a user name, is dropped from the watch list for that history). " +
					"Every call is also forwarded to the repository's own logger (cmds/server/log at debug level) writing into a buffer. Oracle after every packet: no watched token and no shared secret occurs in that output, in any formatted message, in any Record value whose key the same call does not list as obscured, in any field selected by key in a Set (retention) call, " +
					"or in any reply handed to a response logger. states = distinct session-stage states; transitions = packets delivered",
				Assumptions: []string{"tokens are disjoint from every user name and constant of the configuration; substring search on rendered text"}}
		},
		Workers: constInt(16, 16),
		Run:     c18Run,
		Replay:  c18Replay,
	}
}

// c18Out collects what the repository's own logger (cmds/server/log, debug level) writes while the recording logger
// forwards every call to it: the bytes that would reach the log file.
type c18Sink struct {
	mu sync.Mutex
	b  bytes.Buffer
}

func (s *c18Sink) Write(p []byte) (int, error) {
	s.mu.Lock()
	defer s.mu.Unlock()
	return s.b.Write(p)
}

func (s *c18Sink) take() string {
	s.mu.Lock()
	defer s.mu.Unlock()
	out := s.b.String()
	s.b.Reset()
	return out
}

var c18Out = &c18Sink{}

// searchOutput looks for a token in the real logger's output since the last call.
func searchOutput(tokens []string) (line, token string) {
	out := c18Out.take()
	for _, t := range tokens {
		if t == "" {
			continue
		}
		if i := strings.Index(out, t); i >= 0 {
			a := strings.LastIndexByte(out[:i], '\n') + 1
			b := strings.IndexByte(out[i:], '\n')
			if b < 0 {
				b = len(out) - i
			}
			return trunc(out[a:i+b], 300), t
		}
	}
	return "", ""
}

// c18Watch tracks which tokens are presented passwords in the current history.
type c18Watch struct {
	e       *rEnv
	tr      *authTracker
	dropped map[string]bool
	tokens  []string
	secrets []string
}

func newC18Watch(e *rEnv) *c18Watch {
	s := e.Sec
	return &c18Watch{e: e, tr: newAuthTracker(), dropped: map[string]bool{},
		tokens:  []string{s.Own, s.Group2, s.Group3, s.Override, s.Elsewhere, s.Shared1, s.Shared2, s.Keychain},
		secrets: []string{s.Key1, s.Key2}}
}

func (w *c18Watch) step(s stepInfo) (kind, msg string) {
	p := s.Pkt
	stage := w.tr.stage[p.Sid]
	// where may a token legitimately travel as a password?
	for _, tok := range w.tokens {
		asPassword := false
		elsewhere := false
		switch p.Kind {
		case "pap":
			asPassword = strings.Contains(p.Pw, tok)
			elsewhere = strings.Contains(p.User, tok)
		case "start":
			if strings.Contains(p.Pw, tok) {
				if p.AType == 2 {
					asPassword = true
				} else {
					elsewhere = true
				}
			}
		case "cont":
			if strings.Contains(p.Msg, tok) {
				if stage == "getpass" {
					asPassword = true
				} else {
					elsewhere = true
				}
			}
		}
		if elsewhere && !asPassword {
			w.dropped[tok] = true
		}
	}
	var watched []string
	for _, tok := range w.tokens {
		if !w.dropped[tok] {
			watched = append(watched, tok)
		}
	}
	watched = append(watched, w.secrets...)
	if line, tok := searchOutput(watched); line != "" {
		what := "a password"
		for _, k := range w.secrets {
			if k == tok {
				what = "the shared secret"
			}
		}
		return "leak/log-output", fmt.Sprintf("%s is in the output of the repository's own logger (debug level): %s (packet %s, stage %q)", what, line, p.String(), stage)
	}
	if where, tok := searchLogs(s.Logs, watched); where != "" {
		what := "a password"
		for _, k := range w.secrets {
			if k == tok {
				what = "the shared secret"
			}
		}
		return "leak/" + strings.SplitN(where, ":", 2)[0], fmt.Sprintf("%s reached the logger: %s (packet %s, stage %q)", what, where, p.String(), stage)
	}
	w.tr.step(w.e, s)
	return "", ""
}

// searchLogs looks for any token in what the logger was asked to emit or retain.
func searchLogs(calls []srvx.LogCall, tokens []string) (where, token string) {
	has := func(text string) string {
		for _, t := range tokens {
			if t != "" && strings.Contains(text, t) {
				return t
			}
		}
		return ""
	}
	for _, c := range calls {
		switch c.Level {
		case "info", "error", "debug":
			if t := has(c.Msg); t != "" {
				return fmt.Sprintf("%s-message: %q", c.Level, trunc(c.Msg, 160)), t
			}
		case "record":
			obs := map[string]bool{}
			for _, k := range c.Obscure {
				obs[k] = true
			}
			for k, v := range c.Record {
				if obs[k] {
					continue
				}
				if t := has(v); t != "" {
					return fmt.Sprintf("record: key %q not obscured (obscured keys %v), packet-type %q", k, c.Obscure, c.Record["packet-type"]), t
				}
				if t := has(k); t != "" {
					return fmt.Sprintf("record: key name %q", k), t
				}
			}
		case "set":
			for _, k := range c.SetKeys {
				if t := has(c.Fields[k]); t != "" {
					return fmt.Sprintf("retained-context: key %q selected for retention", k), t
				}
			}
		}
	}
	return "", ""
}

func c18Run(c *Ctx) {
	rworldTee = reallog.New(30, c18Out)
	e := c10Env(tokenSecrets(c.Seed), "ok")
	// configuration plane: what the loader itself logs when a configuration is loaded and when another replaces it
	{
		n := len(c18Configs(e))
		job := 0
		for a := 0; a < n; a++ {
			for b := -1; b < n; b++ {
				job++
				if c.Mine(job) {
					c18ConfigPlane(c, e, c18CfgCase{Load: a, Reload: b})
				}
			}
		}
	}
	var w *c18Watch
	step := func(hist []rPkt, s stepInfo) (string, string) {
		if len(hist) == 1 {
			w = newC18Watch(e)
		}
		k, m := w.step(s)
		c.R.State(evid.Hash("trk", w.tr.key()))
		return k, m
	}
	tag := func(cs *rCase) {}
	_ = tag
	// passwords with a byte outside ASCII (the codec rejects them in ASCII-only fields, so they travel the error paths)
	na := c10Alphabet(e, true)
	var extra []rPkt
	for sid := 0; sid < 2; sid++ {
		extra = append(extra, rPkt{Kind: "cont", Msg: e.Sec.Own + "\xe9", Sid: sid}, rPkt{Kind: "cont", Msg: "\xe9" + e.Sec.Group2, Sid: sid},
			rPkt{Kind: "pap", User: "own", Pw: e.Sec.Own + "\xe9", Sid: sid}, rPkt{Kind: "start", Action: 1, AType: 2, Service: 1, Minor: 0, User: "own", Pw: e.Sec.Own + "\xe9", Sid: sid},
			// user names that are nothing but white space, padded names, and the password that follows them
			rPkt{Kind: "cont", Msg: " ", Sid: sid}, rPkt{Kind: "cont", Msg: "own ", Sid: sid}, rPkt{Kind: "cont", Msg: e.Sec.Own, Sid: sid}, rPkt{Kind: "ascii", User: " ", Sid: sid},
			// PAP logins whose fields are missing or blank
			rPkt{Kind: "pap", User: "", Pw: e.Sec.Own, Sid: sid}, rPkt{Kind: "pap", User: " ", Pw: e.Sec.Own, Sid: sid}, rPkt{Kind: "pap", User: "nobody", Pw: e.Sec.Own, Sid: sid})
	}
	var core2 []rPkt
	for _, p := range na {
		if p.Kind == "ascii" || (p.Kind == "cont" && (p.Msg == "own" || p.Msg == "viagroup" || p.Msg == "")) {
			core2 = append(core2, p)
		}
	}
	rExploreTok(c, e, append(core2, extra...), 3, step)
	rExploreTok(c, e, c10Alphabet(e, true), tierPick(c.Quick, 3, 3), step)
	rExploreTok(c, e, c10Alphabet(e, false), tierPick(c.Quick, 2, 3), step)
	// full START product carrying a token in data, alone and followed by a CONTINUE
	var alpha1 []rPkt
	for _, act := range []int{1, 2, 4} {
		for at := 1; at <= 6; at++ {
			for _, svc := range []int{0, 1, 2} {
				for minor := 0; minor <= 1; minor++ {
					// a first packet may carry any odd sequence number: 1, 3 and the last legal one
					for _, sm := range []string{"", "jump", "255"} {
						alpha1 = append(alpha1, rPkt{Kind: "start", Action: act, AType: at, Service: svc, Minor: minor, User: "own", Pw: e.Sec.Own, SeqMode: sm})
						if at == 2 && sm != "" {
							alpha1 = append(alpha1, rPkt{Kind: "start", Action: act, AType: at, Service: svc, Minor: minor, User: "own", Pw: e.Sec.Group2, SeqMode: sm}) // a wrong password
						}
					}
				}
			}
		}
	}
	second := []rPkt{{Kind: "cont", Msg: e.Sec.Own}, {Kind: "cont", Msg: "own"}, {Kind: "cont", Msg: e.Sec.Own, Abort: true}}
	rw, err := newRWorld(e.Cfg, e.KC, true)
	if err != nil {
		panic(err)
	}
	defer rw.stop()
	// what this process has logged before must not matter: every worker first sends STARTs that carry no data at all
	// (routed and unrouted), each on its own connection, then walks its share of the product
	for _, p := range []rPkt{{Kind: "start", Action: 1, AType: 1, Service: 1, Minor: 1, User: "own"}, {Kind: "start", Action: 1, AType: 3, Service: 1, Minor: 1, User: ""},
		{Kind: "start", Action: 2, AType: 2, Service: 1, Minor: 1}, {Kind: "start", Action: 1, AType: 2, Service: 1, Minor: 0, User: "own"}, {Kind: "ascii", User: ""}} {
		rc, err := rw.openR(e, "s1")
		if err != nil {
			c.Abort("hang", err.Error(), nil)
		}
		if _, err := rw.deliverR(rc, 0, p); err != nil {
			c.Abort("hang", err.Error(), nil)
		}
		c.R.Trans(1)
		if !rc.C.Closed() {
			rc.C.FeedEOF()
		}
		c18Out.take()
	}
	job := 0
	for _, st := range alpha1 {
		for _, sec := range second {
			job++
			if !c.Mine(job) {
				continue
			}
			hist := []rPkt{st, sec}
			rc, err := rw.openR(e, "s1")
			if err != nil {
				c.Abort("hang", err.Error(), nil)
			}
			w = newC18Watch(e)
			c.R.Eval()
			ok := true
			for d, p := range hist {
				cs := rCase{KC: "ok", Scope: "s1", Hist: hist[:d+1], Tokens: true}
				c.Cur(cs)
				info, err := rw.deliverR(rc, d, p)
				if err != nil {
					c.Abort("hang", err.Error(), cs)
				}
				c.R.Trans(1)
				if k, m := w.step(info); m != "" {
					c.R.ViolateMin(k, fmt.Sprintf("history %s: step %d: %s", rHistString(hist[:d+1]), d, m), cs, d+1)
					ok = false
					break
				}
				if info.Closed {
					break
				}
			}
			if !rc.C.Closed() {
				rc.C.FeedEOF()
			}
			if ok {
				c.R.Trace()
				c.R.Distinct(evid.Hash(rHistString(hist)))
			}
		}
	}
}

// c18CfgCase is one (load, optional reload) pair of the configuration plane.
type c18CfgCase struct {
	Load   int `json:"config"`
	Reload int `json:"reload"` // -1: none
}

// c18Configs: variants of the main configuration that walk the loader's branches - scopes sharing one keychain entry,
// a third scope, a scope without users, unknown handler / provider types, duplicate user names.
func c18Configs(e *rEnv) []config.ServerConfig {
	base := func() config.ServerConfig { return deepCopyCfg(e.Cfg) }
	var out []config.ServerConfig
	out = append(out, base())
	{ // both scopes are served from ONE keychain entry
		c := base()
		c.Secrets[1].Secret = c.Secrets[0].Secret
		out = append(out, c)
	}
	{ // a third scope that shares the second scope's entry
		c := base()
		s3 := c.Secrets[1]
		s3.Name = "s3"
		s3.Options = map[string]string{"prefixes": `["172.16.0.0/12"]`}
		c.Secrets = append(c.Secrets, s3)
		for i := range c.Users {
			if c.Users[i].Name == "elsewhere" {
				c.Users[i].Scopes = append(c.Users[i].Scopes, "s3")
			}
		}
		out = append(out, c)
	}
	{ // error branches: a scope nobody is assigned to, unknown handler and provider types, a duplicated user name
		c := base()
		lonely := c.Secrets[0]
		lonely.Name = "lonely"
		badH := c.Secrets[0]
		badH.Name, badH.Handler = "bad-handler", config.Handler{Type: config.HandlerType(99)}
		badP := c.Secrets[1]
		badP.Name, badP.Type = "bad-provider", config.ProviderType(99)
		c.Secrets = append(c.Secrets, lonely, badH, badP)
		dup := c.Users[0]
		dup.Scopes = []string{"s1", "bad-handler", "bad-provider"}
		c.Users = append(c.Users, dup)
		out = append(out, c)
	}
	return out
}

func c18ConfigPlane(c *Ctx, e *rEnv, cs c18CfgCase) {
	c.R.Eval()
	c.Cur(cs)
	cfgs := c18Configs(e)
	secrets := []string{e.Sec.Key1, e.Sec.Key2}
	judge := func(when string, calls []srvx.LogCall) bool {
		if line, _ := searchOutput(secrets); line != "" {
			c.R.ViolateMin("leak/config/log-output", fmt.Sprintf("a shared secret is in the output of the repository's own logger while %s: %s", when, line), cs, 1)
			return false
		}
		if where, _ := searchLogs(calls, secrets); where != "" {
			c.R.ViolateMin("leak/config/"+strings.SplitN(where, ":", 2)[0], fmt.Sprintf("a shared secret reached the logger while %s: %s", when, where), cs, 1)
			return false
		}
		return true
	}
	rw, err := newRWorld(cfgs[cs.Load], e.KC, true)
	if err != nil {
		panic(err)
	}
	defer rw.stop()
	c.R.Trans(1)
	if !judge(fmt.Sprintf("configuration %d was loaded", cs.Load), rw.Log.Take()) {
		return
	}
	if cs.Reload >= 0 {
		rw.reload(cfgs[cs.Reload])
		c.R.Trans(1)
		if !judge(fmt.Sprintf("configuration %d was reloaded over configuration %d", cs.Reload, cs.Load), rw.Log.Take()) {
			return
		}
	}
	// the configuration in force is really served: a PAP login obfuscated with the first scope's secret passes
	rc, err := rw.openR(e, "s1")
	if err != nil {
		c.Abort("hang", err.Error(), cs)
	}
	info, err := rw.deliverR(rc, 0, rPkt{Kind: "pap", User: "own", Pw: e.Sec.Own})
	if err != nil {
		c.Abort("hang", err.Error(), cs)
	}
	if !rc.C.Closed() {
		rc.C.FeedEOF()
	}
	if len(info.Replies) != 1 || info.Replies[0] == nil || info.Replies[0].N["status"] != 1 {
		c.R.Count("config_plane_login_not_passed", 1)
	} else {
		c.R.Distinct(evid.Hash("cfg", cs))
	}
	judge("a login was served under it", info.Logs)
	c.R.Trace()
}

// rExploreTok is rExplore with logging kept and replays marked as token-based.
func rExploreTok(c *Ctx, e *rEnv, alpha []rPkt, depth int, step func(hist []rPkt, s stepInfo) (string, string)) {
	rExploreOpt(c, e, alpha, depth, true, "s1", true, step, nil)
}

func c18Replay(c *Ctx, raw json.RawMessage) {
	rworldTee = reallog.New(30, c18Out)
	var cs rCase
	json.Unmarshal(raw, &cs)
	e := c10Env(tokenSecrets(c.Seed), "ok")
	var cc struct {
		Load   *int `json:"config"`
		Reload int  `json:"reload"`
	}
	if json.Unmarshal(raw, &cc) == nil && cc.Load != nil {
		c18ConfigPlane(c, e, c18CfgCase{Load: *cc.Load, Reload: cc.Reload})
		return
	}
	w := newC18Watch(e)
	// the replay file stores the tokens of the run that found it; they are re-derived from VERIF_SEED, so
	// packets are re-instantiated by position in the secret table
	rReplayEnv(c, e, cs, true, func(hist []rPkt, s stepInfo) (string, string) { return w.step(s) })
}
