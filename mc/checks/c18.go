package checks

import (
	"encoding/json"
	"fmt"
	"strings"

	"verif/mc/evid"
	"verif/mc/srvx"
)

// C18: passwords and shared secrets never reach the logs.

func init() {
	Registry["C18"] = &Check{
		Spec: func(tier string) evid.Spec {
			return evid.Spec{ID: "C18", Level: "model_checking", Exhaustive: true,
				Rule: "the C10 configuration with every password and both shared secrets replaced by unique VERIF_SEED-derived tokens; a recording logger implementing the handlers' logger interface (Infof/Errorf/Debugf/Record/Set) at all levels; " +
					"histories: depth <= 3 over the C10 core alphabet, depth 3 over the ASCII-login packets plus passwords containing a non-ASCII byte (which travel the decode-error paths), and depth 2 over the full alphabet (x 2 session ids), plus the full START product action{1,2,4} x type{1..6} x service{0,1,2} x minor{0,1} x first sequence number{1,3,255} carrying a password token (right and, for PAP, wrong) in data, alone and followed by a CONTINUE. " +
					"A token counts as a presented password when it travels in the data of a START whose authen_type is PAP or in the CONTINUE answering GETPASS (a token sent anywhere else, e.g. typed as a user name, is dropped from the watch list for that history). " +
					"Oracle after every packet: no watched token and no shared secret occurs in any formatted message, in any Record value whose key the same call does not list as obscured, in any field selected by key in a Set (retention) call, " +
					"or in any reply handed to a response logger. states = distinct session-stage states; transitions = packets delivered",
				Assumptions: []string{"tokens are disjoint from every user name and constant of the configuration; substring search on rendered text"}}
		},
		Workers: constInt(16, 16),
		Run:     c18Run,
		Replay:  c18Replay,
	}
}

// c18Watch tracks which tokens are presented passwords in the current history.
type c18Watch struct {
	e       *rEnv
	tr      *authTracker
	dropped map[string]bool
	tokens  []string
	secrets []string
}

func newC18Watch(e *rEnv) *c18Watch {
	s := e.Sec
	return &c18Watch{e: e, tr: newAuthTracker(), dropped: map[string]bool{},
		tokens:  []string{s.Own, s.Group2, s.Group3, s.Override, s.Elsewhere, s.Shared1, s.Shared2, s.Keychain},
		secrets: []string{s.Key1, s.Key2}}
}

func (w *c18Watch) step(s stepInfo) (kind, msg string) {
	p := s.Pkt
	stage := w.tr.stage[p.Sid]
	// where may a token legitimately travel as a password?
	for _, tok := range w.tokens {
		asPassword := false
		elsewhere := false
		switch p.Kind {
		case "pap":
			asPassword = strings.Contains(p.Pw, tok)
			elsewhere = strings.Contains(p.User, tok)
		case "start":
			if strings.Contains(p.Pw, tok) {
				if p.AType == 2 {
					asPassword = true
				} else {
					elsewhere = true
				}
			}
		case "cont":
			if strings.Contains(p.Msg, tok) {
				if stage == "getpass" {
					asPassword = true
				} else {
					elsewhere = true
				}
			}
		}
		if elsewhere && !asPassword {
			w.dropped[tok] = true
		}
	}
	var watched []string
	for _, tok := range w.tokens {
		if !w.dropped[tok] {
			watched = append(watched, tok)
		}
	}
	watched = append(watched, w.secrets...)
	if where, tok := searchLogs(s.Logs, watched); where != "" {
		what := "a password"
		for _, k := range w.secrets {
			if k == tok {
				what = "the shared secret"
			}
		}
		return "leak/" + strings.SplitN(where, ":", 2)[0], fmt.Sprintf("%s reached the logger: %s (packet %s, stage %q)", what, where, p.String(), stage)
	}
	w.tr.step(w.e, s)
	return "", ""
}

// searchLogs looks for any token in what the logger was asked to emit or retain.
func searchLogs(calls []srvx.LogCall, tokens []string) (where, token string) {
	has := func(text string) string {
		for _, t := range tokens {
			if t != "" && strings.Contains(text, t) {
				return t
			}
		}
		return ""
	}
	for _, c := range calls {
		switch c.Level {
		case "info", "error", "debug":
			if t := has(c.Msg); t != "" {
				return fmt.Sprintf("%s-message: %q", c.Level, trunc(c.Msg, 160)), t
			}
		case "record":
			obs := map[string]bool{}
			for _, k := range c.Obscure {
				obs[k] = true
			}
			for k, v := range c.Record {
				if obs[k] {
					continue
				}
				if t := has(v); t != "" {
					return fmt.Sprintf("record: key %q not obscured (obscured keys %v), packet-type %q", k, c.Obscure, c.Record["packet-type"]), t
				}
				if t := has(k); t != "" {
					return fmt.Sprintf("record: key name %q", k), t
				}
			}
		case "set":
			for _, k := range c.SetKeys {
				if t := has(c.Fields[k]); t != "" {
					return fmt.Sprintf("retained-context: key %q selected for retention", k), t
				}
			}
		}
	}
	return "", ""
}

func c18Run(c *Ctx) {
	e := c10Env(tokenSecrets(c.Seed), "ok")
	var w *c18Watch
	step := func(hist []rPkt, s stepInfo) (string, string) {
		if len(hist) == 1 {
			w = newC18Watch(e)
		}
		k, m := w.step(s)
		c.R.State(evid.Hash("trk", w.tr.key()))
		return k, m
	}
	tag := func(cs *rCase) {}
	_ = tag
	// passwords with a byte outside ASCII (the codec rejects them in ASCII-only fields, so they travel the error paths)
	na := c10Alphabet(e, true)
	var extra []rPkt
	for sid := 0; sid < 2; sid++ {
		extra = append(extra, rPkt{Kind: "cont", Msg: e.Sec.Own + "\xe9", Sid: sid}, rPkt{Kind: "cont", Msg: "\xe9" + e.Sec.Group2, Sid: sid},
			rPkt{Kind: "pap", User: "own", Pw: e.Sec.Own + "\xe9", Sid: sid}, rPkt{Kind: "start", Action: 1, AType: 2, Service: 1, Minor: 0, User: "own", Pw: e.Sec.Own + "\xe9", Sid: sid})
	}
	var core2 []rPkt
	for _, p := range na {
		if p.Kind == "ascii" || (p.Kind == "cont" && (p.Msg == "own" || p.Msg == "viagroup" || p.Msg == "")) {
			core2 = append(core2, p)
		}
	}
	rExploreTok(c, e, append(core2, extra...), 3, step)
	rExploreTok(c, e, c10Alphabet(e, true), tierPick(c.Quick, 3, 3), step)
	rExploreTok(c, e, c10Alphabet(e, false), tierPick(c.Quick, 2, 3), step)
	// full START product carrying a token in data, alone and followed by a CONTINUE
	var alpha1 []rPkt
	for _, act := range []int{1, 2, 4} {
		for at := 1; at <= 6; at++ {
			for _, svc := range []int{0, 1, 2} {
				for minor := 0; minor <= 1; minor++ {
					// a first packet may carry any odd sequence number: 1, 3 and the last legal one
					for _, sm := range []string{"", "jump", "255"} {
						alpha1 = append(alpha1, rPkt{Kind: "start", Action: act, AType: at, Service: svc, Minor: minor, User: "own", Pw: e.Sec.Own, SeqMode: sm})
						if at == 2 && sm != "" {
							alpha1 = append(alpha1, rPkt{Kind: "start", Action: act, AType: at, Service: svc, Minor: minor, User: "own", Pw: e.Sec.Group2, SeqMode: sm}) // a wrong password
						}
					}
				}
			}
		}
	}
	second := []rPkt{{Kind: "cont", Msg: e.Sec.Own}, {Kind: "cont", Msg: "own"}, {Kind: "cont", Msg: e.Sec.Own, Abort: true}}
	rw, err := newRWorld(e.Cfg, e.KC, true)
	if err != nil {
		panic(err)
	}
	defer rw.stop()
	job := 0
	for _, st := range alpha1 {
		for _, sec := range second {
			job++
			if !c.Mine(job) {
				continue
			}
			hist := []rPkt{st, sec}
			rc, err := rw.openR(e, "s1")
			if err != nil {
				c.Abort("hang", err.Error(), nil)
			}
			w = newC18Watch(e)
			c.R.Eval()
			ok := true
			for d, p := range hist {
				cs := rCase{KC: "ok", Scope: "s1", Hist: hist[:d+1], Tokens: true}
				c.Cur(cs)
				info, err := rw.deliverR(rc, d, p)
				if err != nil {
					c.Abort("hang", err.Error(), cs)
				}
				c.R.Trans(1)
				if k, m := w.step(info); m != "" {
					c.R.ViolateMin(k, fmt.Sprintf("history %s: step %d: %s", rHistString(hist[:d+1]), d, m), cs, d+1)
					ok = false
					break
				}
				if info.Closed {
					break
				}
			}
			if !rc.C.Closed() {
				rc.C.FeedEOF()
			}
			if ok {
				c.R.Trace()
				c.R.Distinct(evid.Hash(rHistString(hist)))
			}
		}
	}
}

// rExploreTok is rExplore with logging kept and replays marked as token-based.
func rExploreTok(c *Ctx, e *rEnv, alpha []rPkt, depth int, step func(hist []rPkt, s stepInfo) (string, string)) {
	rExploreOpt(c, e, alpha, depth, true, "s1", true, step, nil)
}

func c18Replay(c *Ctx, raw json.RawMessage) {
	var cs rCase
	json.Unmarshal(raw, &cs)
	e := c10Env(tokenSecrets(c.Seed), "ok")
	w := newC18Watch(e)
	// the replay file stores the tokens of the run that found it; they are re-derived from VERIF_SEED, so
	// packets are re-instantiated by position in the secret table
	rReplayEnv(c, e, cs, true, func(hist []rPkt, s stepInfo) (string, string) { return w.step(s) })
}
