package checks

import (
	"bytes"
	"encoding/json"
	"fmt"
	"sync"

	tq "github.com/facebookincubator/tacquito"

	"verif/mc/evid"
	"verif/mc/ref"
	"verif/mc/simnet"
	"verif/mc/srvx"
)

// C03: body obfuscation is the RFC 8907 MD5 pad, reversible, and honours the clear flag —
// checked on the real stream reader/writer of both endpoints (server loop, Client.Send).

func init() {
	Registry["C03"] = &Check{
		Spec: func(tier string) evid.Spec {
			return evid.Spec{ID: "C03", Level: "exploration", Exhaustive: true,
				Rule: "product of secrets x session ids x versions x sequence numbers x flag octets x body lengths (see coverage.alphabet); each case runs four directions on the real code: " +
					"server reads (handler must see the cleartext and the untouched header), server writes (raw bytes on the scripted connection must equal cleartext XOR reference pad), " +
					"Client.Send writes, Client.Send reads; plus the server's own key-mismatch reply provoked three times in a row per (secret, type, version, seq{1,3,253}): each raw reply must be one and the same ERROR cleartext XOR the reference pad of its header. distinct_nontrivial counts distinct (direction, secret, session, version, seq, flags, length) tuples whose body is non-empty. Plus (engine E2) two connections exchanging obfuscated packets concurrently under the controlled scheduler, every schedule with <= 1 (quick) / 2 (thorough) deviations",
				Assumptions: []string{"mc/ref/pad.go restates RFC 8907 section 4.5 on top of Go's crypto/md5",
					"bodies are shaped like an authentication REPLY so that the receiver's key-mismatch heuristic lets them through; their variable part is position-dependent bytes"},
				Extra: map[string]interface{}{"alphabet": c03Alphabet(tier == "quick")}}
		},
		Workers:      constInt(16, 16),
		SchedWorkers: constInt(1, 1),
		Run: func(c *Ctx) {
			if c.Param == "sched" {
				schedRun(c)
				return
			}
			c03Run(c)
		},
		Replay: c03Replay,
		Post:   schedPost,
	}
}

type c03Case struct {
	Secret  string `json:"secret_hex"`
	Session uint32 `json:"session"`
	Version byte   `json:"version"`
	Seq     byte   `json:"seq"`
	Flags   byte   `json:"flags"`
	N       int    `json:"body_len"`
	// Signal > 0: the case is the server's own key-mismatch reply, provoked Signal times in a row (Type is the packet type)
	Signal int  `json:"signal,omitempty"`
	Type   byte `json:"type,omitempty"`
}

func c03Secrets() [][]byte {
	all := make([]byte, 256)
	for i := range all {
		all[i] = byte(i)
	}
	return [][]byte{{}, []byte("a"), []byte("fooman"), make([]byte, 16), bytes.Repeat([]byte("k"), 63), bytes.Repeat([]byte("K"), 64), bytes.Repeat([]byte("x"), 65), all}
}

var c03Sessions = []uint32{0, 1, 0x01020304, 0x7fffffff, 0x80000000, 0xffffffff}

func c03Lengths(quick bool) []int {
	base := []int{0, 1, 5, 6, 7, 15, 16, 17, 31, 32, 33, 47, 48, 49, 95, 96, 107, 108, 4095, 4096, 4097, 65519, 65520, 65521, 65535, 65536}
	if quick {
		return base
	}
	seen := map[int]bool{}
	var out []int
	add := func(n int) {
		if n >= 0 && n <= 65536 && !seen[n] {
			seen[n] = true
			out = append(out, n)
		}
	}
	for _, n := range base {
		add(n)
	}
	for n := 0; n <= 1100; n++ {
		add(n)
	}
	for n := 16; n <= 65536; n += 16 {
		add(n - 1)
		add(n)
		add(n + 1)
	}
	for n := 65536 - 40; n <= 65536; n++ {
		add(n)
	}
	return out
}

func c03Alphabet(quick bool) map[string]interface{} {
	return map[string]interface{}{
		"secrets":      "empty, 'a', 'fooman', 16x00, 63/64/65-byte, all 256 octet values; plus a sweep of every secret length 0..160 and 255,256,257,1000,4096 and of secrets with white space, NBSP/NEL or NUL at their edges on a reduced plane (2 versions x 8 body lengths x 4 sequence numbers)",
		"sessions":     c03Sessions,
		"versions":     []string{"c0", "c1"},
		"seq":          tierPick(quick, "server direction {1,3,127,253,255}, client direction {1,2,3,127,128,254,255}", "server direction every odd 1..255, client direction every 1..255"),
		"flags":        []int{0, 1, 4, 5, 0xfe, 0xff},
		"body_lengths": tierPick(quick, fmt.Sprint(c03Lengths(true)), "every length 0..1100, every multiple of 16 +/-1 up to 65536, 65496..65536 (one secret/session/seq plane), boundary list elsewhere"),
	}
}

// replyShaped builds an n-byte cleartext that parses as an authentication REPLY whenever n >= 6
// (status 1, chosen flag octet, lengths splitting the rest), filled with position-dependent bytes.
func replyShaped(n int) []byte {
	b := fill('B', n, false)
	if n >= 6 {
		rest := n - 6
		sm := rest
		if sm > 65535 {
			sm = 65535
		}
		d := rest - sm
		b[0], b[1] = 1, 0x5a
		b[2], b[3] = byte(sm>>8), byte(sm)
		b[4], b[5] = byte(d>>8), byte(d)
	} else if n == 5 {
		// parses as an authentication CONTINUE with empty fields
		b[0], b[1], b[2], b[3] = 0, 0, 0, 0
	}
	return b
}

// rawBody is an EncoderDecoder whose encoding is a fixed byte string.
type rawBody struct{ b []byte }

func (r rawBody) MarshalBinary() ([]byte, error) { return append([]byte{}, r.b...), nil }
func (r rawBody) UnmarshalBinary(d []byte) error { return nil }
func (r rawBody) Fields() map[string]string      { return nil }

// c03Server is one server world whose handler records requests and replies with a scripted cleartext.
type c03Srv struct {
	w     *srvx.World
	conn  *simnet.Conn
	mu    sync.Mutex
	seen  []tq.Request
	reply []byte // nil: do not reply
}

func (s *c03Srv) Handle(resp tq.Response, req tq.Request) {
	s.mu.Lock()
	s.seen = append(s.seen, tq.Request{Header: req.Header, Body: append([]byte{}, req.Body...)})
	r := s.reply
	s.mu.Unlock()
	if r != nil {
		resp.Reply(rawBody{r})
	}
}

func newC03Server(key []byte) (*c03Srv, error) {
	s := &c03Srv{}
	s.w = srvx.Start(srvx.FixedSecret{Key: key, H: s}, nil)
	c, err := s.w.Open(srvx.Addr4(10, 0, 0, 1, 1000))
	s.conn = c
	return s, err
}

// c03SecretSweep: every secret length 0..160 and a few long ones, on a reduced plane of the other dimensions.
func c03SecretSweep(c *Ctx) {
	lens := []int{}
	for n := 0; n <= 160; n++ {
		lens = append(lens, n)
	}
	lens = append(lens, 255, 256, 257, 1000, 4096)
	// secrets are arbitrary octets: white space and NUL at the edges belong to the key like any other octet
	edge := [][]byte{[]byte(" lead"), []byte("trail\n"), []byte("\t both \r\n"), []byte("\xc2\xa0nbsp\xc2\x85"), []byte(" "), []byte("\x00nul\x00"), []byte("in side"), []byte("\v\f")}
	for i := 0; i < len(lens)+len(edge); i++ {
		if !c.Mine(i) {
			continue
		}
		var key []byte
		n := 0
		if i < len(lens) {
			n = lens[i]
			key = make([]byte, n)
		} else {
			key = edge[i-len(lens)]
		}
		for j := range key {
			if i >= len(lens) {
				break
			}
			key[j] = byte(0x21 + (j*11+n)%90)
		}
		srv, err := newC03Server(key)
		if err != nil {
			c.Abort("hang", err.Error(), nil)
		}
		for _, ver := range []byte{0xc0, 0xc1} {
			for _, bn := range []int{0, 1, 16, 17, 32, 33, 100, 1000} {
				for _, seq := range []int{1, 255} {
					cs := c03Case{Secret: fmt.Sprintf("%x", key), Session: 0x01020304, Version: ver, Seq: byte(seq), N: bn}
					if srv.conn.Closed() {
						srv.w.Stop()
						if srv, err = newC03Server(key); err != nil {
							c.Abort("hang", err.Error(), cs)
						}
					}
					c03Server(c, srv, key, cs)
				}
				for _, seq := range []int{2, 254} {
					c03Client(c, key, c03Case{Secret: fmt.Sprintf("%x", key), Session: 0x80000001, Version: ver, Seq: byte(seq), N: bn})
				}
			}
		}
		srv.w.Stop()
	}
}

// c03Dense: every body length of the thorough list on one (secret, session) pair, spread over all workers.
func c03Dense(c *Ctx) {
	key := []byte("fooman")
	lens := c03Lengths(false)
	srv, err := newC03Server(key)
	if err != nil {
		c.Abort("hang", err.Error(), nil)
	}
	defer func() { srv.w.Stop() }()
	for li, n := range lens {
		if !c.Mine(li) {
			continue
		}
		for _, ver := range []byte{0xc0, 0xc1} {
			for _, fl := range []byte{0, 1, 4, 5, 0xfe, 0xff} {
				for _, seq := range []int{1, 255} {
					cs := c03Case{Secret: fmt.Sprintf("%x", key), Session: 0x01020304, Version: ver, Seq: byte(seq), Flags: fl, N: n}
					if srv.conn.Closed() {
						srv.w.Stop()
						if srv, err = newC03Server(key); err != nil {
							c.Abort("hang", err.Error(), cs)
						}
					}
					c03Server(c, srv, key, cs)
				}
				for _, seq := range []int{2, 254} {
					c03Client(c, key, c03Case{Secret: fmt.Sprintf("%x", key), Session: 0x01020304, Version: ver, Seq: byte(seq), Flags: fl, N: n})
				}
			}
		}
		if c.Expired() {
			return
		}
	}
}

// c03Signal: the one reply the server originates itself - the error packet that answers a key mismatch - is obfuscated like
// any other body: provoked several times in a row in one process, every raw reply is (one and the same error cleartext)
// XOR (reference pad of the reply's own header under the server's key).
func c03Signal(c *Ctx, key []byte, cs c03Case) {
	c.R.Eval()
	c.Cur(cs)
	fail := func(what string) {
		c.R.Violate("server-signal/"+firstWord(what), fmt.Sprintf("server key-mismatch reply: %s; case %+v", what, cs), cs)
	}
	var first []byte
	for i := 0; i < cs.Signal; i++ {
		srv, err := newC03Server(key)
		if err != nil {
			c.Abort("hang", err.Error(), cs)
		}
		h := ref.Header{Version: cs.Version, Type: cs.Type, Seq: cs.Seq, Session: cs.Session + uint32(i)}
		_, err = srv.w.Deliver(srv.conn, ref.Packet(h, key, []byte{0xff, 0xff, 0xff, 0xff, 0xff, 0xff, 0xff, 0xff, 0xff}))
		out := srv.conn.Take()
		srv.w.Stop()
		if err != nil {
			c.Abort("hang", err.Error(), cs)
		}
		pk, rest := srvx.ParseStream(out)
		if len(pk) != 1 || len(rest) != 0 {
			return // whether and how a mismatch is signalled is C19's business; here only the obfuscation of what is sent
		}
		clear := ref.Obfuscate(pk[0].H, key, pk[0].Body)
		if pk[0].H.Flags&1 != 0 {
			clear = pk[0].Body
		}
		if m, cl := replyLayout[cs.Type].Decode(clear); cl != ref.Exact || m.N["status"] != errorStatus[cs.Type] {
			fail(fmt.Sprintf("reply %d of %d is not (an ERROR reply of type %d) XOR (the pad of its header %+v under the server's key): deobfuscated %s", i+1, cs.Signal, cs.Type, pk[0].H, hx(clear)))
			return
		}
		if i == 0 {
			first = clear
		} else if !bytes.Equal(first, clear) {
			fail(fmt.Sprintf("reply %d deobfuscates to %s, the first one to %s", i+1, hx(clear), hx(first)))
			return
		}
	}
	c.R.Distinct(evid.Hash("signal", cs))
}

func c03Run(c *Ctx) {
	c03SecretSweep(c)
	{
		i := 0
		for _, key := range c03Secrets() {
			for _, typ := range []byte{1, 2, 3} {
				for _, ver := range []byte{0xc0, 0xc1} {
					i++
					if !c.Mine(i) {
						continue
					}
					for _, seq := range []byte{1, 3, 253} {
						c03Signal(c, key, c03Case{Secret: fmt.Sprintf("%x", key), Session: 0x51600000, Version: ver, Seq: seq, Type: typ, Signal: 3})
					}
				}
			}
		}
	}
	if !c.Quick {
		c03Dense(c)
	}
	secrets := c03Secrets()
	versions := []byte{0xc0, 0xc1}
	flags := []byte{0, 1, 4, 5, 0xfe, 0xff}
	var srvSeqs, cliSeqs []int
	if c.Quick {
		srvSeqs = []int{1, 3, 127, 253, 255}
		cliSeqs = []int{1, 2, 3, 127, 128, 254, 255}
	} else {
		for i := 1; i <= 255; i++ {
			cliSeqs = append(cliSeqs, i)
			if i%2 == 1 {
				srvSeqs = append(srvSeqs, i)
			}
		}
	}
	job := 0
	for _, key := range secrets {
		for _, sid := range c03Sessions {
			for _, ver := range versions {
				job++
				if !c.Mine(job) {
					continue
				}
				srv, err := newC03Server(key)
				if err != nil {
					c.Abort("hang", err.Error(), nil)
				}
				lens := c03Lengths(true)
				seqsS, seqsC := srvSeqs, cliSeqs
				for _, fl := range flags {
					for _, n := range lens {
						for _, seq := range seqsS {
							cs := c03Case{Secret: fmt.Sprintf("%x", key), Session: sid, Version: ver, Seq: byte(seq), Flags: fl, N: n}
							if srv.conn.Closed() {
								srv.w.Stop()
								srv, err = newC03Server(key)
								if err != nil {
									c.Abort("hang", err.Error(), cs)
								}
							}
							c03Server(c, srv, key, cs)
						}
						for _, seq := range seqsC {
							cs := c03Case{Secret: fmt.Sprintf("%x", key), Session: sid, Version: ver, Seq: byte(seq), Flags: fl, N: n}
							c03Client(c, key, cs)
						}
					}
					if c.Expired() {
						srv.w.Stop()
						return
					}
				}
				srv.w.Stop()
			}
		}
	}
}

func (cs c03Case) header() ref.Header {
	return ref.Header{Version: cs.Version, Type: 1, Seq: cs.Seq, Flags: cs.Flags, Session: cs.Session, Length: uint32(cs.N)}
}

// c03Server runs the two server directions for one case (cs.Seq must be odd).
func c03Server(c *Ctx, s *c03Srv, key []byte, cs c03Case) {
	clear := replyShaped(cs.N)
	h := cs.header()
	c.Cur(cs)
	fail := func(dir, what string) {
		c.R.Violate("server-"+dir+"/"+firstWord(what), fmt.Sprintf("server %s: %s; case %+v", dir, what, cs), cs)
	}
	for _, withReply := range []bool{false, true} {
		c.R.Eval()
		if cs.N > 0 {
			c.R.Distinct(evid.Hash("srv", withReply, cs))
		}
		replyClear := replyShaped((cs.N*7 + 3) % 65537)
		if cs.N >= 65520 {
			replyClear = replyShaped(cs.N)
		}
		s.mu.Lock()
		s.seen = nil
		s.reply = nil
		if withReply {
			s.reply = replyClear
		}
		s.mu.Unlock()
		wire := ref.Packet(h, key, clear)
		closed, err := s.w.Deliver(s.conn, wire)
		if err != nil {
			c.Abort("hang", fmt.Sprintf("server hung on case %+v: %v", cs, err), cs)
		}
		out := s.conn.Take()
		s.mu.Lock()
		seen := s.seen
		s.mu.Unlock()
		if len(seen) != 1 {
			fail("read", fmt.Sprintf("handler saw %d requests for one well-formed packet (closed=%v)", len(seen), closed))
			return
		}
		rq := seen[0]
		if !bytes.Equal(rq.Body, clear) {
			fail("read", fmt.Sprintf("cleartext differs at offset %d: handler got %s want %s", firstDiff(rq.Body, clear), hx(rq.Body), hx(clear)))
		}
		if rq.Header.Version.MajorVersion != cs.Version>>4 || rq.Header.Version.MinorVersion != cs.Version&0xf || byte(rq.Header.Type) != 1 ||
			uint16(rq.Header.SeqNo) != uint16(cs.Seq) || byte(rq.Header.Flags) != cs.Flags || uint32(rq.Header.SessionID) != cs.Session || rq.Header.Length != uint32(cs.N) {
			fail("read", fmt.Sprintf("header altered: %+v", rq.Header))
		}
		if !withReply {
			if len(out) != 0 {
				fail("read", "bytes written although the handler did not reply")
			}
			continue
		}
		if cs.Seq == 255 {
			if len(out) != 0 {
				fail("write", "a reply was written to a request numbered 255")
			}
			continue
		}
		pk, rest := srvx.ParseStream(out)
		if len(pk) != 1 || len(rest) != 0 {
			fail("write", fmt.Sprintf("expected exactly one reply packet, got %d packets and %d stray bytes", len(pk), len(rest)))
			continue
		}
		rh := pk[0].H
		wantH := ref.Header{Version: cs.Version, Type: 1, Seq: cs.Seq + 1, Flags: cs.Flags, Session: cs.Session, Length: uint32(len(replyClear))}
		if rh != wantH {
			fail("write", fmt.Sprintf("reply header %+v want %+v", rh, wantH))
			continue
		}
		want := ref.Obfuscate(wantH, key, replyClear)
		if !bytes.Equal(pk[0].Body, want) {
			fail("write", fmt.Sprintf("wire body differs from cleartext XOR pad at offset %d of %d", firstDiff(pk[0].Body, want), len(want)))
		}
		c.R.SampleCap(3, map[string]interface{}{"direction": "server", "case": cs, "reply_wire_prefix": hx(out)})
	}
}

// c03Client runs Client.Send over a scripted connection: what it writes and what it returns.
func c03Client(c *Ctx, key []byte, cs c03Case) {
	c.R.Eval()
	if cs.N > 0 {
		c.R.Distinct(evid.Hash("cli", cs))
	}
	fail := func(dir, what string) {
		c.R.Violate("client-"+dir+"/"+firstWord(what), fmt.Sprintf("Client.Send %s: %s; case %+v", dir, what, cs), cs)
	}
	clear := replyShaped(cs.N)
	h := cs.header()
	// the peer's answer: same session, next sequence number, another length
	ah := h
	if cs.Seq == 255 {
		ah.Seq = 1
	} else {
		ah.Seq = cs.Seq + 1
	}
	answerClear := replyShaped((cs.N*5 + 11) % 65537)
	if cs.N >= 65520 {
		answerClear = replyShaped(cs.N)
	}
	conn := simnet.NewConn(nil, srvx.Addr4(10, 0, 0, 2, 49))
	conn.Feed(ref.Packet(ah, key, answerClear))
	cl := tq.VerifNewClient(conn, key)
	p := tq.NewPacket(tq.SetPacketHeader(implHeader(h)), tq.SetPacketBody(append([]byte{}, clear...)))
	// the writer owns the length field: whatever stale value the caller left there (a reused header, a struct
	// literal) must not influence the pad or the bytes on the wire
	switch cs.N % 3 {
	case 1:
		p.Header.Length = 0
	case 2:
		p.Header.Length = uint32(cs.N / 2)
	}
	var got *tq.Packet
	var err error
	pn, hung := guarded(func() { got, err = cl.Send(p) })
	if hung {
		c.Abort("hang-client", fmt.Sprintf("Client.Send did not return; case %+v", cs), cs)
	}
	if pn != "" {
		fail("send", "panic "+pn)
		return
	}
	out := conn.Take()
	want := ref.Packet(h, key, clear)
	if !bytes.Equal(out, want) {
		fail("write", fmt.Sprintf("bytes on the wire differ from header||cleartext XOR pad at offset %d (wrote %d bytes, want %d)", firstDiff(out, want), len(out), len(want)))
	}
	if err != nil {
		fail("read", "Send returned an error for a well-formed answer: "+err.Error())
		return
	}
	if got == nil || got.Header == nil {
		fail("read", "Send returned no packet")
		return
	}
	wantFlags := ah.Flags
	if ah.Seq == 2 {
		wantFlags |= 0x04
	}
	if !bytes.Equal(got.Body, answerClear) {
		fail("read", fmt.Sprintf("cleartext differs at offset %d", firstDiff(got.Body, answerClear)))
	}
	gh := got.Header
	if gh.Version.MajorVersion != ah.Version>>4 || gh.Version.MinorVersion != ah.Version&0xf || byte(gh.Type) != 1 || uint16(gh.SeqNo) != uint16(ah.Seq) ||
		byte(gh.Flags) != wantFlags || uint32(gh.SessionID) != ah.Session || gh.Length != uint32(len(answerClear)) {
		fail("read", fmt.Sprintf("header altered: %+v", *gh))
	}
}

func c03Replay(c *Ctx, raw json.RawMessage) {
	var cs c03Case
	if err := json.Unmarshal(raw, &cs); err != nil {
		panic(err)
	}
	var key []byte
	fmt.Sscanf(cs.Secret, "%x", &key)
	if cs.Signal > 0 {
		c03Signal(c, key, cs)
		return
	}
	if cs.Seq%2 == 1 {
		srv, err := newC03Server(key)
		if err == nil {
			c03Server(c, srv, key, cs)
			srv.w.Stop()
		}
	}
	c03Client(c, key, cs)
}
