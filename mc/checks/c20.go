package checks

import (
	"context"
	"encoding/json"
	"fmt"
	"io"
	"net"
	"strings"

	tq "github.com/facebookincubator/tacquito"
	"github.com/prometheus/client_golang/prometheus"

	"verif/mc/enum"
	"verif/mc/evid"
	"verif/mc/ref"
	"verif/mc/simnet"
	"verif/mc/srvx"
)

// C20: in-flight gauges return to rest and never go negative.

func init() {
	Registry["C20"] = &Check{
		Spec: func(tier string) evid.Spec {
			d := 4
			if tier != "quick" {
				d = 5
			}
			return evid.Spec{ID: "C20", Level: "model_checking", Exhaustive: true,
				Rule: fmt.Sprintf("all connection histories of <= %d events after the first open, over: open an admitted connection (at most 2), open a refused connection, on each open connection a packet "+
					"(session A/B x seq 1,2,3 and, on session A, 255 x handler replies / replies+continuation / continuation only), a key-mismatch packet, an oversize header, a client close; every history is followed by the teardown "+
					"(remaining clients close, context cancelled, Serve returns). The four in-flight gauges are gathered from the default prometheus registry before the history, at every idle point and after Serve returned: "+
					"none may be below its value at rest, all must be back at rest at the end. states = distinct (open connections, open sessions per connection) model states; transitions = events executed. "+
					"Plus (engine E2, instrumented code under the controlled scheduler with a VIRTUAL clock): 8 scripts of 1-2 packets on one or two connections (sessions that complete, sessions left waiting, a refused packet) x {plain, single-connect} x {clients close then cancel, cancel with connections open}, "+
					"every schedule with <= 1 (quick) / 2 (thorough) deviations; after the teardown the clock is advanced by an hour so that every timer the server armed fires (at most 4 firings per timer): gauges never below rest, and at rest after the teardown and after the hour", d),
				Assumptions: []string{"gauges are read through prometheus.DefaultGatherer; the Go and process collectors are unregistered in the harness process only to make gathering cheap"}}
		},
		Workers:      constInt(16, 16),
		SchedWorkers: constInt(4, 8),
		Run: func(c *Ctx) {
			if c.Param == "sched" {
				schedRun(c)
				return
			}
			c20Run(c)
		},
		Replay: c20Replay,
		Post:   schedPost,
	}
}

var gaugeNames = []string{"tacquito_serve_accepted", "tacquito_handle_handlers", "tacquito_sessions_active", "tacquito_waitgroup_handle_routines_active"}

func init() {
	prometheus.Unregister(prometheus.NewGoCollector())
	prometheus.Unregister(prometheus.NewProcessCollector(prometheus.ProcessCollectorOpts{}))
}

func readGauges() map[string]float64 {
	out := map[string]float64{}
	mfs, err := prometheus.DefaultGatherer.Gather()
	if err != nil {
		panic(err)
	}
	for _, mf := range mfs {
		for _, n := range gaugeNames {
			if mf.GetName() == n && len(mf.Metric) > 0 && mf.Metric[0].Gauge != nil {
				out[n] = mf.Metric[0].Gauge.GetValue()
			}
		}
	}
	if len(out) != len(gaugeNames) {
		panic(fmt.Sprintf("gauges missing from the registry: got %v", out))
	}
	return out
}

// c20Provider admits 10.20.x.x and refuses everything else.
type c20Provider struct {
	key []byte
	h   tq.Handler
}

func (p c20Provider) Get(ctx context.Context, remote net.Addr) ([]byte, tq.Handler, error) {
	if a, ok := remote.(*net.TCPAddr); ok && a.IP.To4() != nil && a.IP.To4()[1] == 20 {
		return p.key, p.h, nil
	}
	return nil, nil, fmt.Errorf("refused")
}

type c20Event struct {
	Kind string `json:"kind"` // open, refuse, pkt, mismatch, oversize, eof
	Conn int    `json:"conn,omitempty"`
	Sid  int    `json:"sid,omitempty"` // 0/1
	Seq  int    `json:"seq,omitempty"`
	Act  string `json:"act,omitempty"`
}

func (e c20Event) String() string {
	switch e.Kind {
	case "pkt":
		return fmt.Sprintf("c%d:%c:%d:%s", e.Conn, 'A'+e.Sid, e.Seq, e.Act)
	case "open", "refuse":
		return e.Kind
	}
	return fmt.Sprintf("c%d:%s", e.Conn, e.Kind)
}

var c20Key = []byte("gauge-key")

// c20History runs one history in a fresh world and checks the gauges. It returns a violation message or "".
func c20History(c *Ctx, hist []c20Event) string {
	rest := readGauges()
	w := &lworld{Key: c20Key, nextID: 1}
	w.W = srvx.Start(c20Provider{key: c20Key, h: &scripted{w: w, id: 0}}, nil)
	var conns []*simnet.Conn
	models := []*ref.ConnModel{}
	check := func(when string) string {
		g := readGauges()
		for _, n := range gaugeNames {
			if g[n] < rest[n] {
				return fmt.Sprintf("%s: gauge %s is %v, below its value at rest %v", when, n, g[n], rest[n])
			}
		}
		return ""
	}
	msg := ""
	for i, e := range hist {
		c.R.Trans(1)
		var err error
		switch e.Kind {
		case "open":
			var cn *simnet.Conn
			cn, err = w.W.Open(srvx.Addr4(10, 20, 0, byte(1+len(conns)), 2000))
			conns = append(conns, cn)
			models = append(models, ref.NewConnModel())
		case "refuse":
			var cn *simnet.Conn
			cn, err = w.W.Open(srvx.Addr4(10, 99, 0, 1, 2000))
			if err == nil && !cn.Closed() {
				msg = "refused connection was not closed"
			}
		case "pkt":
			le := lEvent{Sid: uint32(0xa0000000 + e.Sid), Seq: e.Seq, Act: e.Act}
			h := le.header()
			act := le.action()
			models[e.Conn].Step(h, act.Action)
			w.setAction(act)
			_, err = w.W.Deliver(conns[e.Conn], ref.Packet(h, c20Key, minimalRequest(1)))
			conns[e.Conn].Take()
			if conns[e.Conn].Closed() {
				models[e.Conn].Open = false
			}
		case "mismatch":
			h := ref.Header{Version: 0xc0, Type: 1, Seq: 1, Session: 0xbad}
			_, err = w.W.Deliver(conns[e.Conn], ref.Packet(h, []byte("wrong"), []byte{9, 9, 9, 9, 255, 255, 255, 255, 1}))
			models[e.Conn].Open = false
		case "oversize":
			h := ref.Header{Version: 0xc0, Type: 1, Seq: 1, Session: 0xb16, Length: 70000}
			_, err = w.W.Deliver(conns[e.Conn], h.Encode())
			models[e.Conn].Open = false
		case "eof":
			_, err = w.W.DeliverErr(conns[e.Conn], io.EOF)
			models[e.Conn].Open = false
		}
		if err != nil {
			c.Abort("hang", fmt.Sprintf("%v in history %v", err, hist[:i+1]), hist[:i+1])
		}
		key := ""
		for _, m := range models {
			key += m.Key() + ";"
		}
		c.R.State(evid.Hash(key))
		if msg == "" {
			msg = check(fmt.Sprintf("after event %d (%s)", i, e))
		}
		if msg != "" {
			break
		}
	}
	if err := w.W.Stop(); err != nil {
		c.Abort("hang", fmt.Sprintf("%v at teardown of %v", err, hist), hist)
	}
	if msg != "" {
		return msg
	}
	g := readGauges()
	for _, n := range gaugeNames {
		if g[n] != rest[n] {
			return fmt.Sprintf("after every connection closed and Serve returned: gauge %s is %v, was %v before the history", n, g[n], rest[n])
		}
	}
	return ""
}

func c20Enabled(open []bool, nOpened int) []c20Event {
	var ev []c20Event
	if nOpened < 2 {
		ev = append(ev, c20Event{Kind: "open"})
	}
	ev = append(ev, c20Event{Kind: "refuse"})
	for i, o := range open {
		if !o {
			continue
		}
		for sid := 0; sid < 2; sid++ {
			for _, seq := range []int{1, 2, 3, 255} {
				for _, act := range []string{"R", "RN", "N"} {
					if seq == 255 && sid == 1 {
						continue // the top of the sequence space is exercised on session A only
					}
					ev = append(ev, c20Event{Kind: "pkt", Conn: i, Sid: sid, Seq: seq, Act: act})
				}
			}
		}
		ev = append(ev, c20Event{Kind: "mismatch", Conn: i}, c20Event{Kind: "oversize", Conn: i}, c20Event{Kind: "eof", Conn: i})
	}
	return ev
}

func c20Str(h []c20Event) string {
	s := make([]string, len(h))
	for i, e := range h {
		s[i] = e.String()
	}
	return "[" + strings.Join(s, " ") + "]"
}

func c20Run(c *Ctx) {
	depth := tierPick(c.Quick, 4, 5)
	enum.Explore(enum.Opts{MaxDev: -1, ShardDepth: 2, ShardK: c.K, ShardN: c.N}, func(ch *enum.C) {
		if c.Expired() {
			return
		}
		// the history is chosen against a model of which connections are open (closed ones take no more events)
		hist := []c20Event{{Kind: "open"}}
		models := []*ref.ConnModel{ref.NewConnModel()}
		for d := 0; d < depth; d++ {
			open := make([]bool, len(models))
			for i, m := range models {
				open[i] = m.Open
			}
			evs := c20Enabled(open, len(models))
			// a "stop here" choice lets shorter histories be maximal too
			k := ch.Choose(len(evs) + 1)
			if k == len(evs) {
				break
			}
			e := evs[k]
			hist = append(hist, e)
			switch e.Kind {
			case "open":
				models = append(models, ref.NewConnModel())
			case "pkt":
				le := lEvent{Sid: uint32(0xa0000000 + e.Sid), Seq: e.Seq, Act: e.Act}
				models[e.Conn].Step(le.header(), le.action().Action)
			case "mismatch", "oversize", "eof":
				models[e.Conn].Open = false
			}
		}
		c.Cur(hist)
		c.R.Eval()
		if msg := c20History(c, hist); msg != "" {
			c.R.ViolateMin(c20KeyOf(msg), fmt.Sprintf("history %s: %s", c20Str(hist), msg), hist, len(hist))
			return
		}
		c.R.Trace()
		if len(hist) > 2 {
			c.R.Distinct(evid.Hash(c20Str(hist)))
		}
		if c.R.Evaluations%2001 == 0 {
			c.R.SampleCap(6, c20Str(hist))
		}
	})
}

// c20KeyOf names a violation by gauge and direction.
func c20KeyOf(msg string) string {
	kind := "not-restored"
	if strings.Contains(msg, "below its value at rest") {
		kind = "below-rest"
	}
	for _, n := range gaugeNames {
		if strings.Contains(msg, n) {
			return kind + ":" + n
		}
	}
	return kind + ":" + digits.ReplaceAllString(msg, "#")
}

func c20Replay(c *Ctx, raw json.RawMessage) {
	var hist []c20Event
	if err := json.Unmarshal(raw, &hist); err != nil {
		panic(err)
	}
	if msg := c20History(c, hist); msg != "" {
		c.R.Violate(c20KeyOf(msg), fmt.Sprintf("history %s: %s", c20Str(hist), msg), hist)
	}
}
