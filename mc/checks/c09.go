package checks

import (
	"encoding/json"
	"fmt"
	"strings"
	"time"

	"verif/mc/enum"
	"verif/mc/evid"
)

// C09: multiplexed or concurrent sessions never influence one another.
// Differential oracle: every session's reply transcript under interleaving equals its transcript when it
// is the only session a fresh server ever sees.

func init() {
	Registry["C09"] = &Check{
		Spec: func(tier string) evid.Spec {
			return evid.Spec{ID: "C09", Level: "model_checking", Exhaustive: true,
				Rule: "a login waiting at a prompt while 70 (300) other sessions run to completion on its connection between its packets; 15 session scripts (a session whose request is numbered 255; ASCII 3-packet login good / bad password / unknown user, user in START, PAP good/bad, abort at step 2 and at step 3, command authorization permitted/denied, session authorization, accounting start, the same command lines asked by users with opposite rules), each with its own user so that a leaked " +
					"user name, prompt state or continuation changes a reply. (a) one connection: every order-preserving interleaving of every ordered pair of scripts on two session ids, and of a fixed set of triples (thorough: all triples of 6 scripts); " +
					"(b) two connections carrying the SAME session id: every packet-level interleaving of every pair; (d) every ordered pair of the 13 scripts that end their session, back to back on one connection under ONE session id. Oracle: each session's transcript (raw reply headers and decoded bodies, per packet) equals the transcript of the same script " +
					"run alone on a freshly built server. (c) engine E2: every pair of 5 bcrypt-free scripts on two concurrent connection goroutines sharing a session id, every schedule within the deviation bound; plus every (abandoned login prefix on a connection that then closes, script on a new connection with the same session id) pair. states = distinct (script set, interleaving position) pairs; transitions = packets delivered; traces = interleavings on which all transcripts matched",
				Assumptions: []string{"scripts are fixed packet lists (not adaptive to replies)"}}
		},
		Workers:      constInt(16, 16),
		SchedWorkers: constInt(8, 8),
		Budget: func(tier string) time.Duration {
			if tier == "quick" {
				return 150 * time.Second
			}
			return 100 * time.Minute
		},
		Run: func(c *Ctx) {
			if c.Param == "sched" {
				schedRun(c)
				return
			}
			c09Run(c)
		},
		Replay: c09Replay,
		Post:   schedPost,
	}
}

type c09Case struct {
	Scripts []int `json:"scripts"`
	Order   []int `json:"order"` // which script sends its next packet at each step
	TwoConn bool  `json:"two_connections"`
	// Crowd > 0: between the packets of script Scripts[0] that many other sessions (one command authorization each,
	// every one under its own session id) run to completion on the same connection
	Crowd int `json:"crowd,omitempty"`
	// Pending: the crowd's sessions are logins that stop at the password prompt and are never continued, so that many
	// sessions are OPEN on the connection when the first script goes on
	Pending bool `json:"crowd_left_pending,omitempty"`
	// Reuse: the scripts run one after the other on ONE connection under the SAME session id (each ends its session)
	Reuse bool `json:"reuse_session_id,omitempty"`
}

// c09Crowd: a login that is waiting at a prompt while many other sessions come and go on its connection.
func c09Crowd(c *Ctx, rw *rworld, e *rEnv, scripts [][]rPkt, cs c09Case, alone map[string][]string) {
	c.R.Eval()
	c.Cur(cs)
	rc, err := rw.openR(e, "s1")
	if err != nil {
		c.Abort("hang", err.Error(), cs)
	}
	defer func() {
		if !rc.C.Closed() {
			rc.C.FeedEOF()
		}
	}()
	other := rPkt{Kind: "author", User: "own", Args: []string{"service=shell", "cmd=show"}}
	if cs.Pending {
		other = rPkt{Kind: "ascii", User: "own"}
	}
	wantOther := ""
	step, next := 0, 1000
	for pos, p := range scripts[cs.Scripts[0]] {
		p.Sid = 0
		info, err := rw.deliverR(rc, step, p)
		if err != nil {
			c.Abort("hang", err.Error(), cs)
		}
		step++
		c.R.Trans(1)
		if got, want := stepTranscript(info), alone[fmt.Sprintf("%d/0", cs.Scripts[0])][pos]; got != want {
			c.R.ViolateMin("transcript-differs-in-a-crowd", fmt.Sprintf("script %d packet %d (%s) after %d other sessions ran on the connection since its previous packet: answered %s, alone it is answered %s", cs.Scripts[0], pos, p.String(), cs.Crowd, got, want), cs, 1)
			return
		}
		if pos == len(scripts[cs.Scripts[0]])-1 {
			break
		}
		for k := 0; k < cs.Crowd; k++ {
			o := other
			o.Sid = next
			next++
			info, err := rw.deliverR(rc, step, o)
			if err != nil {
				c.Abort("hang", err.Error(), cs)
			}
			step++
			c.R.Trans(1)
			// every bystander session is answered like the first one (apart from its session id)
			got := strings.ReplaceAll(stepTranscript(info), fmt.Sprintf("sid=%x", sidOf(o.Sid)), "sid=*")
			if wantOther == "" {
				wantOther = got
			} else if got != wantOther {
				c.R.ViolateMin("transcript-differs-in-a-crowd", fmt.Sprintf("bystander session %d was answered %s, the first one %s", k, got, wantOther), cs, 1)
				return
			}
		}
	}
	c.R.Trace()
	c.R.Distinct(evid.Hash("crowd", cs))
}

func c09Scripts(e *rEnv) [][]rPkt {
	s := e.Sec
	return [][]rPkt{
		{{Kind: "ascii", User: ""}, {Kind: "cont", Msg: "own"}, {Kind: "cont", Msg: s.Own}},
		{{Kind: "ascii", User: ""}, {Kind: "cont", Msg: "viagroup"}, {Kind: "cont", Msg: "wrong"}},
		{{Kind: "ascii", User: ""}, {Kind: "cont", Msg: "nobody"}, {Kind: "cont", Msg: s.Own}},
		{{Kind: "ascii", User: "override"}, {Kind: "cont", Msg: s.Override}},
		{{Kind: "pap", User: "shared", Pw: s.Shared1}},
		{{Kind: "pap", User: "viagroup", Pw: s.Own}},
		{{Kind: "ascii", User: ""}, {Kind: "cont", Msg: "own", Abort: true}},
		{{Kind: "ascii", User: ""}, {Kind: "cont", Msg: "viagroup"}, {Kind: "cont", Msg: s.Group2, Abort: true}},
		{{Kind: "author", User: "own", Args: []string{"service=shell", "cmd=show"}}},
		{{Kind: "author", User: "noauth", Args: []string{"service=shell", "cmd=reload"}}},
		{{Kind: "author", User: "own", Args: []string{"service=ppp", "protocol=ip"}}},
		{{Kind: "acct", User: "own", Flags: 2}},
		// the same command lines asked by users whose rules say the opposite (a decision of one session must not
		// be reused for another user's session)
		{{Kind: "author", User: "shared", Args: []string{"service=shell", "cmd=show"}}},
		{{Kind: "author", User: "override", Args: []string{"service=shell", "cmd=reload"}}, {Kind: "author", User: "own", Args: []string{"service=shell", "cmd=configure", "cmd-arg=terminal"}, SeqMode: "one"}},
		// a session whose request is numbered 255: it cannot be answered, which is that session's business alone
		{{Kind: "author", User: "own", Args: []string{"service=shell", "cmd=show"}, SeqMode: "255"}},
	}
}

// transcript of one step: what came back for this packet
func stepTranscript(s stepInfo) string {
	var b strings.Builder
	fmt.Fprintf(&b, "closed=%v;", s.Closed)
	for i, p := range s.Packets {
		fmt.Fprintf(&b, "hdr{v=%x t=%d seq=%d fl=%x sid=%x len=%d}", p.H.Version, p.H.Type, p.H.Seq, p.H.Flags, p.H.Session, p.H.Length)
		if i < len(s.Replies) && s.Replies[i] != nil {
			m := s.Replies[i]
			fmt.Fprintf(&b, "body{%v", m.N)
			for _, k := range []string{"server_msg", "data"} {
				fmt.Fprintf(&b, " %s=%q", k, m.S[k])
			}
			for _, a := range m.Args {
				fmt.Fprintf(&b, " arg=%q", a)
			}
			b.WriteString("}")
		} else {
			b.WriteString("body{undecodable}")
		}
	}
	return b.String()
}

func c09Alone(c *Ctx, e *rEnv, script []rPkt, sid int) []string {
	rw, err := newRWorld(e.Cfg, e.KC, false)
	if err != nil {
		panic(err)
	}
	defer rw.stop()
	rc, err := rw.openR(e, "s1")
	if err != nil {
		c.Abort("hang", err.Error(), nil)
	}
	var out []string
	for d, p := range script {
		p.Sid = sid
		info, err := rw.deliverR(rc, d, p)
		if err != nil {
			c.Abort("hang", err.Error(), nil)
		}
		out = append(out, stepTranscript(info))
	}
	return out
}

func c09Interleaving(c *Ctx, rw *rworld, e *rEnv, scripts [][]rPkt, cs c09Case, alone map[string][]string) {
	c.R.Eval()
	c.Cur(cs)
	fail := func(kind, what string) {
		c.R.ViolateMin(kind, fmt.Sprintf("%s; scripts %v order %v two_connections=%v", what, cs.Scripts, cs.Order, cs.TwoConn), cs, len(cs.Order))
	}
	conns := []*rConn{}
	nconn := 1
	if cs.TwoConn {
		nconn = len(cs.Scripts)
	}
	for i := 0; i < nconn; i++ {
		rc, err := rw.openR(e, "s1")
		if err != nil {
			c.Abort("hang", err.Error(), cs)
		}
		conns = append(conns, rc)
	}
	defer func() {
		for _, rc := range conns {
			if !rc.C.Closed() {
				rc.C.FeedEOF()
			}
		}
	}()
	pos := make([]int, len(cs.Scripts))
	for step, who := range cs.Order {
		script := scripts[cs.Scripts[who]]
		p := script[pos[who]]
		sid := who
		rc := conns[0]
		if cs.TwoConn {
			sid = 0 // the same session id on every connection
			rc = conns[who]
		}
		if cs.Reuse {
			sid = 0
			if pos[who] == 0 {
				p.SeqMode = "one" // a new session under the id the previous, finished session used
			}
		}
		p.Sid = sid
		info, err := rw.deliverR(rc, step, p)
		if err != nil {
			c.Abort("hang", err.Error(), cs)
		}
		c.R.Trans(1)
		c.R.State(evid.Hash(fmt.Sprint(cs.Scripts), fmt.Sprint(pos), cs.TwoConn))
		want := alone[fmt.Sprintf("%d/%d", cs.Scripts[who], sid)][pos[who]]
		if got := stepTranscript(info); got != want {
			fail("transcript-differs", fmt.Sprintf("step %d: session of script %d packet %d (%s) was answered %s, alone it is answered %s", step, cs.Scripts[who], pos[who], p.String(), got, want))
			return
		}
		pos[who]++
	}
	c.R.Trace()
	c.R.Distinct(evid.Hash(fmt.Sprint(cs.Scripts), fmt.Sprint(cs.Order), cs.TwoConn))
}

// interleavings enumerates all order-preserving merges of scripts with the given lengths.
func interleavings(lens []int, emit func(order []int)) {
	total := 0
	for _, l := range lens {
		total += l
	}
	enum.Explore(enum.Opts{MaxDev: -1}, func(ch *enum.C) {
		left := append([]int{}, lens...)
		var order []int
		for len(order) < total {
			var cand []int
			for i, l := range left {
				if l > 0 {
					cand = append(cand, i)
				}
			}
			k := cand[ch.Choose(len(cand))]
			left[k]--
			order = append(order, k)
		}
		emit(order)
	})
}

func c09Run(c *Ctx) {
	e := newREnv(defaultSecrets(), "ok")
	scripts := c09Scripts(e)
	// transcripts of every script alone, on a fresh server each, for the session ids it may use
	alone := map[string][]string{}
	for i, s := range scripts {
		for sid := 0; sid < 3; sid++ {
			alone[fmt.Sprintf("%d/%d", i, sid)] = c09Alone(c, e, s, sid)
		}
	}
	rw, err := newRWorld(e.Cfg, e.KC, false)
	if err != nil {
		panic(err)
	}
	defer rw.stop()
	job := 0
	n := 0
	run := func(cs c09Case) {
		n++
		c09Interleaving(c, rw, e, scripts, cs, alone)
		if n%97 == 0 {
			c.R.SampleCap(6, cs)
		}
	}
	for i := range scripts {
		for j := range scripts {
			job++
			if !c.Mine(job) {
				continue
			}
			interleavings([]int{len(scripts[i]), len(scripts[j])}, func(order []int) {
				run(c09Case{Scripts: []int{i, j}, Order: append([]int{}, order...)})
				run(c09Case{Scripts: []int{i, j}, Order: append([]int{}, order...), TwoConn: true})
			})
		}
	}
	// (d) one session id used again: every ordered pair of the 13 scripts that end their session runs back to back on one
	// connection under the same session id (different packet types and minor versions follow each other on that id)
	for i := 0; i < 13; i++ {
		for j := 0; j < 13; j++ {
			job++
			if !c.Mine(job) {
				continue
			}
			var order []int
			for range scripts[i] {
				order = append(order, 0)
			}
			for range scripts[j] {
				order = append(order, 1)
			}
			run(c09Case{Scripts: []int{i, j}, Order: order, Reuse: true})
		}
	}
	// a login waiting at a prompt while 70 (thorough: also 300) other sessions come and go on its connection, or are
	// opened there and left waiting at their own prompt
	for _, si := range []int{0, 1, 3, 7} {
		for _, crowd := range tierPick(c.Quick, []int{70}, []int{70, 300}) {
			job++
			if c.Mine(job) {
				c09Crowd(c, rw, e, scripts, c09Case{Scripts: []int{si}, Crowd: crowd}, alone)
			}
			job++
			if c.Mine(job) {
				c09Crowd(c, rw, e, scripts, c09Case{Scripts: []int{si}, Crowd: crowd, Pending: true}, alone)
			}
		}
	}
	triples := [][]int{{0, 1, 3}, {0, 6, 8}, {1, 7, 4}, {2, 3, 11}, {0, 0, 0}, {7, 1, 10}}
	if !c.Quick {
		triples = nil
		for a := 0; a < 6; a++ {
			for b := 0; b < 6; b++ {
				for d := 0; d < 6; d++ {
					triples = append(triples, []int{a, b, d})
				}
			}
		}
		triples = append(triples, []int{0, 6, 8}, []int{1, 7, 4}, []int{2, 3, 11}, []int{7, 1, 10}, []int{8, 9, 10}, []int{11, 0, 7})
	}
	for _, t := range triples {
		job++
		if !c.Mine(job) {
			continue
		}
		interleavings([]int{len(scripts[t[0]]), len(scripts[t[1]]), len(scripts[t[2]])}, func(order []int) {
			run(c09Case{Scripts: t, Order: append([]int{}, order...)})
			if c.Quick {
				return
			}
			run(c09Case{Scripts: t, Order: append([]int{}, order...), TwoConn: true})
		})
		if c.Expired() {
			return
		}
	}
}

func c09Replay(c *Ctx, raw json.RawMessage) {
	var cs c09Case
	if err := json.Unmarshal(raw, &cs); err != nil {
		panic(err)
	}
	e := newREnv(defaultSecrets(), "ok")
	scripts := c09Scripts(e)
	alone := map[string][]string{}
	for _, i := range cs.Scripts {
		for sid := 0; sid < 3; sid++ {
			alone[fmt.Sprintf("%d/%d", i, sid)] = c09Alone(c, e, scripts[i], sid)
		}
	}
	rw, err := newRWorld(e.Cfg, e.KC, false)
	if err != nil {
		panic(err)
	}
	defer rw.stop()
	if cs.Crowd > 0 {
		c09Crowd(c, rw, e, scripts, cs, alone)
		return
	}
	c09Interleaving(c, rw, e, scripts, cs, alone)
}
