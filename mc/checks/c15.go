package checks

import (
	"encoding/json"
	"strings"
	"time"

	"verif/mc/evid"
)

// C15 (no data races; reload atomic with respect to lookups) and C17 (shutdown waits; read deadlines)
// are decided by engine E2: the instrumented real code under the controlled scheduler (see sched_harness.go,
// built only with -tags sched -race). The plain binary only hosts the parent side.

func schedOnly(c *Ctx) {
	if c.Param == "sched" {
		schedRun(c)
	}
}

func schedReplayDispatch(c *Ctx, raw json.RawMessage) { schedReplayHook(c, raw) }

func init() {
	Registry["C15"] = &Check{
		Spec: func(tier string) evid.Spec {
			b := 1
			if tier != "quick" {
				b = 2
			}
			return evid.Spec{ID: "C15", Level: "model_checking", Exhaustive: true,
				Rule: "stateless exploration of goroutine interleavings of the real code (sync, go statements, channels and timers redirected to a cooperative scheduler with a virtual clock by mc/cmd/instrument) for " + fmtInt(int64(len(c15Names))) + " harnesses: " + strings.Join(c15Names, "; ") + ". Every choice vector with at most the stated number of deviations from the default schedule (continue the running thread, else first enabled by priority) is executed, " +
					"iterating the bound 0,1,..; each execution runs under -race with the scheduler's own hand-offs hidden from ThreadSanitizer and the modelled primitives issuing the real acquire/release edges, so a report is a pair of accesses the program's own synchronisation leaves unordered. " +
					"Oracles: zero race reports; every lookup observes one complete configuration (H3); a published configuration is never written again (H4); functional replies unchanged. states = harnesses explored; transitions = primitive operations executed; traces = executions with no finding",
				Assumptions: []string{"happens-before edges of the modelled primitives mirror sync.Mutex/RWMutex/WaitGroup/Once and channel semantics; where exact modelling is awkward more edges are issued (may hide, cannot invent a race)",
					"statement-level scheduling points in loader.updates, crypt.go, types.go:TrimSpace and the handler/authorizer/authenticator/accounter files; elsewhere preemption happens at synchronisation and I/O operations",
					"timers are virtual: a timer fires when the harness advanced the clock to it or when no program thread can run, at most 4 times per execution",
					"ThreadSanitizer's happens-before includes the standard library's own edges (sync.Pool annotations inside fmt/json)",
					"ThreadSanitizer keeps four accesses per 8-byte word: at bounds <= 1 every schedule with a deviation is judged twice (counter race_verdict_reruns), a report in either run counts; a race can still be missed in one run and reported in another, never the reverse"},
				Extra: map[string]interface{}{"deviation_bound_target": b}}
		},
		Workers:      constInt(0, 0),
		SchedWorkers: constInt(16, 16),
		Budget: func(tier string) time.Duration {
			if tier == "quick" {
				return 300 * time.Second
			}
			return 150 * time.Minute // bound 2 over ~600 scheduling points per execution is ~10^6 schedules per harness
		},
		Run:    schedOnly,
		Replay: schedReplayDispatch,
		Post:   schedPost,
	}
	Registry["C17"] = &Check{
		Spec: func(tier string) evid.Spec {
			n, b := 3, 1
			if tier != "quick" {
				n, b = 4, 2
			}
			return evid.Spec{ID: "C17", Level: "model_checking", Exhaustive: true,
				Rule: "every environment script of length <= " + itoa(n) + " over {client connects (<=2), sends a full packet, sends a full packet with the first octets of another one in the same segment, sends a partial packet, its read deadline fires, context cancelled, accept deadline fires} in two pacing modes (events fired back to back, and each event digested by the server before the next), followed by a fair closing phase, against a handler that completes each session and (where a deadline fires after a full packet) one that leaves every session waiting for a continuation " +
					"(cancel, clock advanced, every armed deadline fires) is run against the real Serve loop under the controlled scheduler with a scripted listener/connections and a virtual clock; for each script every schedule with <= " + itoa(b) +
					" deviations is executed. Oracles on the global event log: every Read is issued with a finite read deadline in the (virtual) future armed; a connection whose deadline fires is closed and never read or written again; " +
					"when Serve returns the listener was closed before, every accepted connection is closed, and no handler entry/exit, read, write or close carries a later index; Serve does return (a state with no runnable thread is a deadlock violation). " +
					"Further script families: the same scripts (one shorter) against a server in proxy mode; clock-driven pacing scripts (T = ten seconds pass, due deadlines expire, one more byte arrives) with the oracle 'no complete packet by the deadline armed when the wait began => closed'; scripts in which the caller closes the listener itself (L) before or after cancelling; steady-arrival scripts (after the cancellation new connections keep arriving and every blocked read reaches its deadline, R): Serve must have returned without an accept timeout ever firing; refused-remote scripts (U = a connection from a remote the secret store refuses, and which gives up when the context is over) before, around and after the cancellation: every accepted connection is closed when Serve has returned. " +
					"states = scripts; transitions = primitive operations executed",
				Extra: map[string]interface{}{"script_length": n, "deviation_bound_target": b}}
		},
		Workers:      constInt(0, 0),
		SchedWorkers: constInt(16, 16),
		Run:          schedOnly,
		Replay:       schedReplayDispatch,
		Post:         schedPost,
	}
}

func itoa(n int) string { return string(rune('0' + n)) }

// schedPost states, from the merged counters, which deviation bound every scheduler job completed.
func schedPost(c *Ctx) {
	total := c.R.Counters["sched_jobs_total"]
	best := -1
	for b := 0; b <= 4; b++ {
		if c.R.Counters["sched_jobs_completed_deviation_bound_"+itoa(b)] == total && total > 0 {
			best = b
		}
	}
	c.R.Note("scheduler jobs: " + fmtInt(total) + "; deviation bound completed by every job: " + fmtInt(int64(best)))
	want := int64(1)
	if !c.Quick {
		want = 2
	}
	if int64(best) < want {
		c.R.Capped = true
	}
}

func fmtInt(n int64) string {
	if n < 0 {
		return "-" + fmtInt(-n)
	}
	if n < 10 {
		return string(rune('0' + n))
	}
	return fmtInt(n/10) + string(rune('0'+n%10))
}

// c15Names are the harnesses of C15 (checked against the job table when the scheduler worker starts).
var c15Names = []string{
	"H1 two connections, same user, one command authorization each",
	"H2 accept loop with connections opening and closing",
	"H3 two lookups concurrent with a reload of a different configuration",
	"H3b lookup concurrent with two reloads",
	"H4-yaml consumer of a published configuration concurrent with the next load",
	"H4-json consumer of a published configuration concurrent with the next load",
	"H11 two connections logging the same user in (PAP), one with the right and one with a wrong password",
	"H12 load of a configuration whose user sits in three scopes, with group rules merged into slices that have spare capacity (as a JSON decode leaves them)",
	"H10-yaml the loader's update loop polling a file loader while the watcher loads the next document",
	"H10-json the loader's update loop polling a file loader while the watcher loads the next document",
	"H5 one connection multiplexing two sessions plus a second connection",
	"H7 reload of a different configuration while a connection is being served",
	"H16 a lookup held up in the secret store across a reload, then another lookup for the same address",
	"H17-full accounting through the DEFAULT file sink while the clock ticks; the file is /dev/full (every write fails)",
	"H17-file accounting through the DEFAULT file sink while the clock ticks; the file is a scratch file",
	"H18 two connections of clients that use a key the server does not have (the server answers each with its bad-secret reply)",
	"H15 two connections of a server whose secret provider hands out ONE key slice (with spare capacity) to every connection",
	"H14 two connections asking for user names in spellings the configuration does not have",
	"H13 reload introducing new command patterns while a command with pattern rules is being authorized",
	"H19 two connections, same user, one command authorization each; the user's rules come from its own list and two groups, merged into a slice with spare capacity",
	"H8 two connections, same user, one session authorization each",
	"H6 cancellation concurrent with serving",
	"H9 cancellation racing the next request of an idle connection that holds a pending session",
}
