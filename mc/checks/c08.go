package checks

import (
	"encoding/json"
	"fmt"
	"regexp"
	"strings"

	"verif/mc/enum"
	"verif/mc/evid"
	"verif/mc/ref"
)

// C08: sequence numbers enforced (odd, strictly increasing per session, never reused), follow-up
// packets go only to the continuation registered by that session's previous reply, finished
// sessions are forgotten. Engine E3-L: every history over the alphabet on the real Serve loop,
// lock-step with ref.ConnModel.

func init() {
	Registry["C08"] = &Check{
		Spec: func(tier string) evid.Spec {
			d := 4
			if tier != "quick" {
				d = 5
			}
			return evid.Spec{ID: "C08", Level: "model_checking", Exhaustive: true,
				Rule: fmt.Sprintf("all histories of depth <= %d over {session A,B} x {seq 1,2,3,4,5,253,254,255} x {handler replies, replies+registers a continuation, registers a continuation without replying}, "+
					"plus all histories of depth <= %d over {session A,B} x {type 1,2,3} x {seq 1,3,5} x {replies, replies+continuation}; each executed on a fresh scripted connection of the real server; after every event the invoked handler instance, the bytes written and the open/closed state are compared with the connection model; "+
					"sub-trees are pruned only when model and implementation agree that the connection is closed. states = distinct model states, transitions = events executed on the implementation, "+
					"plus (engine E2) every script of 2-3 PIPELINED packets over {A:1,A:3,A:2,A:5,B:1,B:3} on a plain and on a single-connect connection, fed before the server has answered anything, every schedule with <= 1 (quick) / 2 (thorough) deviations: handler instances, their order and the replies must be what the model says when it judges the packets one after the other. traces = maximal histories on which every step agreed; distinct_nontrivial = distinct histories containing at least one rejected or continuation-dispatched packet", d, d-1),
				Assumptions: []string{"mc/ref/connmodel.go is the reference; in the one corner the statement leaves open (request 255 whose reply cannot be sent while a continuation is registered) the model accepts both forgetting the session and keeping it, never a dispatch to the stale continuation"},
				Extra:       map[string]interface{}{"depth": d, "alphabet_size": 48}}
		},
		Workers:      constInt(16, 16),
		SchedWorkers: constInt(8, 8),
		Run: func(c *Ctx) {
			if c.Param == "sched" {
				schedRun(c)
				return
			}
			c08Run(c)
		},
		Replay: c08Replay,
		Post:   schedPost,
	}
}

type lEvent struct {
	Sid  uint32 `json:"sid"`
	Seq  int    `json:"seq"`
	Act  string `json:"act"` // R, RN, N
	Type int    `json:"type,omitempty"`
	Ver  int    `json:"ver,omitempty"`
	Flg  int    `json:"flags,omitempty"`
}

func (e lEvent) String() string { return fmt.Sprintf("%x:%d:%s", e.Sid>>28, e.Seq, e.Act) }

func (e lEvent) header() ref.Header {
	typ, ver := byte(1), byte(0xc0)
	if e.Type != 0 {
		typ = byte(e.Type)
	}
	if e.Ver != 0 {
		ver = byte(e.Ver)
	}
	return ref.Header{Version: ver, Type: typ, Seq: byte(e.Seq), Flags: byte(e.Flg), Session: e.Sid}
}

func (e lEvent) action() lAction {
	a := lAction{}
	switch e.Act {
	case "R":
		a.Reply = true
	case "RN":
		a.Reply, a.Next = true, true
	case "N":
		a.Next = true
	}
	if a.Reply {
		a.Body = defaultReply(e.header().Type)
	}
	return a
}

var c08Key = []byte("k08-secret")

func c08Alphabet() []lEvent {
	var out []lEvent
	for _, sid := range []uint32{0x1aaaaaaa, 0x2bbbbbbb} {
		for _, seq := range []int{1, 2, 3, 4, 5, 253, 254, 255} {
			for _, act := range []string{"R", "RN", "N"} {
				out = append(out, lEvent{Sid: sid, Seq: seq, Act: act})
			}
		}
	}
	return out
}

var digits = regexp.MustCompile(`[0-9]+`)

// runLHistory executes a history on a fresh connection, lock-step with the model. It returns the index of
// the first disagreeing event (or -1) and the message.
func runLHistory(c *Ctx, w *lworld, hist []lEvent, onState func(m *ref.ConnModel)) (bad int, msg string, executed int, closedAt int) {
	w.reset()
	lc, err := w.open()
	if err != nil {
		c.Abort("hang", err.Error(), hist)
	}
	closedAt = -1
	c.Cur(hist)
	defer func() {
		if !lc.C.Closed() {
			lc.C.FeedEOF()
		}
	}()
	for i, e := range hist {
		h := e.header()
		body := minimalRequest(h.Type)
		act := e.action()
		v := lc.M.Step(h, act.Action)
		r, err := w.deliver(lc, ref.Packet(h, w.Key, body), act)
		if err != nil {
			c.Abort("hang", fmt.Sprintf("%v after history %v", err, hist[:i+1]), hist[:i+1])
		}
		executed++
		if m := compareStep(lc, w.Key, h, act, v, r); m != "" {
			return i, m, executed, closedAt
		}
		if onState != nil {
			onState(lc.M)
		}
		if !lc.M.Open {
			closedAt = i
			break
		}
	}
	return -1, "", executed, closedAt
}

func histString(h []lEvent) string {
	s := make([]string, len(h))
	for i, e := range h {
		s[i] = e.String()
	}
	return "[" + strings.Join(s, " ") + "]"
}

// c08TypedAlphabet mixes packet types under the same session ids: the session table is per session id, whatever
// the packet type says.
func c08TypedAlphabet() []lEvent {
	var out []lEvent
	for _, sid := range []uint32{0x1aaaaaaa, 0x2bbbbbbb} {
		for _, typ := range []int{1, 2, 3} {
			for _, seq := range []int{1, 3, 5} {
				for _, act := range []string{"R", "RN"} {
					out = append(out, lEvent{Sid: sid, Seq: seq, Act: act, Type: typ})
				}
			}
		}
	}
	return out
}

func c08Run(c *Ctx) {
	depth := tierPick(c.Quick, 4, 5)
	c08Explore(c, c08Alphabet(), depth)
	c08Explore(c, c08TypedAlphabet(), tierPick(c.Quick, 3, 4))
}

func c08Explore(c *Ctx, alpha []lEvent, depth int) {
	w := newLWorld(c08Key, nil)
	defer w.W.Stop()
	execs, capped := enum.Explore(enum.Opts{MaxDev: -1, ShardDepth: 2, ShardK: c.K, ShardN: c.N}, func(ch *enum.C) {
		if c.Expired() {
			return
		}
		// choose the history lazily: stop choosing once the model says the connection is closed
		probe := ref.NewConnModel()
		var hist []lEvent
		for d := 0; d < depth && probe.Open; d++ {
			e := alpha[ch.Choose(len(alpha))]
			hist = append(hist, e)
			v := probe.Step(e.header(), e.action().Action)
			if v.EitherRejectOrEntry {
				// the model cannot know which way the implementation goes; keep the history going
				// (runLHistory resolves it against the implementation)
			}
		}
		bad, msg, n, _ := runLHistory(c, w, hist, func(m *ref.ConnModel) { c.R.State(evid.Hash(m.Key())) })
		c.R.Eval()
		c.R.Trans(int64(n))
		if bad >= 0 {
			key := digits.ReplaceAllString(msg, "#")
			c.R.ViolateMin(key, fmt.Sprintf("history %s: at event %d: %s", histString(hist[:bad+1]), bad, msg), hist[:bad+1], bad+1)
			return
		}
		c.R.Trace()
		nontrivial := false
		for _, e := range hist {
			if e.Seq%2 == 0 || e.Act != "R" {
				nontrivial = true
			}
		}
		if nontrivial {
			c.R.Distinct(evid.Hash(histString(hist)))
		}
		if c.R.Evaluations%4001 == 0 {
			c.R.SampleCap(6, map[string]interface{}{"history": histString(hist), "note": "session:seq:handler-action per event; every step agreed with the model"})
		}
	})
	_ = execs
	if capped {
		c.R.Capped = true
	}
}

func c08Replay(c *Ctx, raw json.RawMessage) {
	var hist []lEvent
	if err := json.Unmarshal(raw, &hist); err != nil {
		panic(err)
	}
	w := newLWorld(c08Key, nil)
	defer w.W.Stop()
	bad, msg, _, _ := runLHistory(c, w, hist, nil)
	if bad >= 0 {
		c.R.Violate(digits.ReplaceAllString(msg, "#"), fmt.Sprintf("history %s: at event %d: %s", histString(hist[:bad+1]), bad, msg), hist)
	}
}
