package checks

import (
	"context"
	"encoding/hex"
	"encoding/json"
	"fmt"
	"sync"

	tq "github.com/facebookincubator/tacquito"
	"github.com/facebookincubator/tacquito/cmds/server/config"
	"github.com/facebookincubator/tacquito/cmds/server/config/accounters/local"
	bcryptauth "github.com/facebookincubator/tacquito/cmds/server/config/authenticators/bcrypt"
	"github.com/facebookincubator/tacquito/cmds/server/config/authorizers/stringy"
	"github.com/facebookincubator/tacquito/cmds/server/config/secret"
	"github.com/facebookincubator/tacquito/cmds/server/config/secret/prefix"
	"github.com/facebookincubator/tacquito/cmds/server/handlers"
	"github.com/facebookincubator/tacquito/cmds/server/loader"
	"golang.org/x/crypto/bcrypt"

	"verif/mc/simnet"
	"verif/mc/srvx"
)

// rworld is the reference-server flavour (E3-R): the real loader fed ServerConfig values through its
// unmarshaled seam, the real Start handler, stringy, bcrypt and the local accounter with an injected sink,
// all behind the real Serve loop over the scripted network.

type cfgFeed struct{ ch cfgChan }

func (f cfgFeed) Config() cfgChan { return f.ch }

// sinkRec records accounting sink calls with the clock index at which they happened.
type sinkRec struct {
	mu    sync.Mutex
	clock *simnet.Clock
	Calls []sinkCall
	// gate, when set, makes every Printf hang after it has been handed its record, until the gate is closed (a log
	// destination whose write does not return)
	gate chan struct{}
}

func (s *sinkRec) setGate(g chan struct{}) {
	s.mu.Lock()
	s.gate = g
	s.mu.Unlock()
}

func (s *sinkRec) snapshot() []sinkCall {
	s.mu.Lock()
	defer s.mu.Unlock()
	return append([]sinkCall{}, s.Calls...)
}

type sinkCall struct {
	Seq    int64
	Format string
	Args   []interface{}
}

func (s *sinkRec) Printf(format string, args ...interface{}) {
	s.mu.Lock()
	var seq int64
	if s.clock != nil {
		seq = s.clock.Tick()
	}
	s.Calls = append(s.Calls, sinkCall{Seq: seq, Format: format, Args: args})
	g := s.gate
	s.mu.Unlock()
	if g != nil {
		<-g
	}
}

func (s *sinkRec) take() []sinkCall {
	s.mu.Lock()
	defer s.mu.Unlock()
	c := s.Calls
	s.Calls = nil
	return c
}

// Rendered is the line as log.Logger.Printf would write it (fmt.Sprintf of format and args).
func (c sinkCall) Rendered() string { return fmt.Sprintf(c.Format, c.Args...) }

// keychainRec is the getSecret seam of the bcrypt authenticator.
type keychainRec struct {
	Hash map[string][]byte // by user name
	Err  bool
}

func (k *keychainRec) GetSecret(ctx context.Context, name, group string) ([]byte, error) {
	if k.Err {
		return nil, fmt.Errorf("keychain unavailable")
	}
	return k.Hash[name], nil
}

// recStart wraps the real Start handler factory so that every handler invocation (entry and
// continuations) and every Reply call is observable.
type recStart struct {
	inner *handlers.Start
	rw    *rworld
}

func (f *recStart) New(ctx context.Context, cp config.Provider, options map[string]string) tq.Handler {
	return &recHandler{rw: f.rw, inner: f.inner.New(ctx, cp, options)}
}

type recHandler struct {
	rw    *rworld
	inner tq.Handler
	cont  bool
}

// handlerCall is one observed invocation.
type handlerCall struct {
	Cont    bool
	Session uint32
	Seq     int
	Replies []tq.EncoderDecoder
	Next    bool
}

func (h *recHandler) Handle(resp tq.Response, req tq.Request) {
	call := &handlerCall{Cont: h.cont, Session: uint32(req.Header.SessionID), Seq: int(req.Header.SeqNo)}
	h.rw.mu.Lock()
	h.rw.calls = append(h.rw.calls, call)
	h.rw.mu.Unlock()
	h.inner.Handle(&recResponse{Response: resp, rw: h.rw, call: call}, req)
}

type recResponse struct {
	tq.Response
	rw   *rworld
	call *handlerCall
}

func (r *recResponse) Next(n tq.Handler) {
	r.rw.mu.Lock()
	r.call.Next = true
	r.rw.mu.Unlock()
	r.Response.Next(&recHandler{rw: r.rw, inner: n, cont: true})
}

func (r *recResponse) Reply(v tq.EncoderDecoder) (int, error) {
	r.rw.mu.Lock()
	r.call.Replies = append(r.call.Replies, v)
	r.rw.mu.Unlock()
	return r.Response.Reply(v)
}

func (r *recResponse) ReplyWithContext(ctx context.Context, v tq.EncoderDecoder, w ...tq.Writer) (int, error) {
	r.rw.mu.Lock()
	r.call.Replies = append(r.call.Replies, v)
	r.rw.mu.Unlock()
	return r.Response.ReplyWithContext(ctx, v, w...)
}

func (rw *rworld) takeCalls() []*handlerCall {
	rw.mu.Lock()
	defer rw.mu.Unlock()
	c := rw.calls
	rw.calls = nil
	return c
}

type rworld struct {
	mu     sync.Mutex
	calls  []*handlerCall
	W      *srvx.World
	Log    *srvx.Logger
	Sink   *sinkRec
	Loader *loader.Loader
	feed   cfgFeed
	cancel context.CancelFunc
}

// hashCache memoises bcrypt hashes (MinCost) per password.
var hashCache sync.Map

func bcryptHex(pw string) string {
	if v, ok := hashCache.Load(pw); ok {
		return v.(string)
	}
	h, err := bcrypt.GenerateFromPassword([]byte(pw), bcrypt.MinCost)
	if err != nil {
		panic(err)
	}
	s := hex.EncodeToString(h)
	hashCache.Store(pw, s)
	return s
}

func bcryptRaw(pw string) []byte {
	b, _ := hex.DecodeString(bcryptHex(pw))
	return b
}

// newRWorld builds the full reference stack and serves cfg.
// rworldTee, when set, is attached to the logger of every world built afterwards (C18's real-logger plane).
var rworldTee srvx.TeeLogger

func newRWorld(cfg config.ServerConfig, kc *keychainRec, keepLog bool, opts ...tq.Option) (*rworld, error) {
	lg := &srvx.Logger{Keep: keepLog, Tee: rworldTee}
	sink := &sinkRec{}
	acct, err := local.New(lg, local.SetLogSink(sink))
	if err != nil {
		return nil, err
	}
	if kc == nil {
		kc = &keychainRec{}
	}
	ctx, cancel := context.WithCancel(context.Background())
	r := &rworld{Log: lg, Sink: sink, cancel: cancel}
	feed := cfgFeed{ch: mkCfgChan(1)}
	ld, err := loader.NewLoader(ctx, feed,
		loader.SetLoggerProvider(lg),
		loader.SetKeychainProvider(secret.New()),
		loader.SetConfigProvider(config.New()),
		loader.SetAuthorizerProvider(stringy.New(lg)),
		loader.RegisterSecretProviderType(config.PREFIX, prefix.New(lg)),
		loader.RegisterHandlerType(config.START, &recStart{inner: handlers.NewStart(lg), rw: r}),
		loader.RegisterAuthenticator(config.BCRYPT, bcryptauth.New(lg, kc)),
		loader.RegisterAccounter(config.FILE, acct),
	)
	if err != nil {
		cancel()
		return nil, err
	}
	cfgSend(feed.ch, cfg)
	ld.BlockUntilLoaded()
	r.Loader, r.feed = ld, feed
	r.W = srvx.Start(ld, lg, opts...)
	sink.clock = r.W.Clock
	return r, nil
}

func (r *rworld) stop() error {
	err := r.W.Stop()
	r.cancel()
	return err
}

// reload publishes another configuration and waits until a lookup observes the loader loop again.
func (r *rworld) reload(cfg config.ServerConfig) {
	cfgSend(r.feed.ch, cfg)
	// the loader loop is single threaded: once a query is answered after the config was taken from the
	// one-slot channel, the new configuration is in force. Push a second, identical value to be sure
	// the first one was consumed.
	cfgSend(r.feed.ch, cfg)
	r.Loader.Get(context.Background(), srvx.Addr4(0, 0, 0, 0, 1))
}

// scopeCfg is a compact description of one secret configuration (scope).
func scopeCfg(name, key string, prefixes ...string) config.SecretConfig {
	js := "["
	for i, p := range prefixes {
		if i > 0 {
			js += ","
		}
		js += fmt.Sprintf("%q", p)
	}
	js += "]"
	return config.SecretConfig{Name: name, Secret: config.Keychain{Group: "g", Key: key}, Handler: config.Handler{Type: config.START},
		Type: config.PREFIX, Options: map[string]string{"prefixes": js}}
}

func bcryptAuthn(pw string) *config.Authenticator {
	return &config.Authenticator{Type: config.BCRYPT, Options: map[string]string{"hash": bcryptHex(pw)}}
}

func fileAcct() *config.Accounter {
	return &config.Accounter{Name: "file", Type: config.FILE}
}

var _ tq.Handler = (*handlers.Start)(nil)

// deepCopyCfg copies a configuration through its JSON form.
func deepCopyCfg(c config.ServerConfig) config.ServerConfig {
	b, err := json.Marshal(c)
	if err != nil {
		panic(err)
	}
	var out config.ServerConfig
	if err := json.Unmarshal(b, &out); err != nil {
		panic(err)
	}
	return out
}
