package checks

import (
	"encoding/json"
	"fmt"
	"net"
	"strings"

	tq "github.com/facebookincubator/tacquito"
	"github.com/facebookincubator/tacquito/cmds/server/config"

	"verif/mc/evid"
	"verif/mc/ref"
	"verif/mc/srvx"
)

// C14: no client input can crash the server or disturb other clients.
// Every case runs in a worker subprocess; the case is written ahead, so a process that dies
// (any panic in any server goroutine) is turned into the violation's replay by the parent.

func init() {
	Registry["C14"] = &Check{
		Spec: func(tier string) evid.Spec {
			return evid.Spec{ID: "C14", Level: "model_checking", Exhaustive: true,
				Rule: "cases = (configuration, prefix history, hostile last packet). Configurations: the C10 user shapes plus authenticators with options {none, hash \"\", non-hex, hex of a non-bcrypt string, key/group only} under keychains that work / fail / return nothing, " +
					"accounters with unregistered type or nil options, empty and blank command/service names, invalid regular expressions, a scope whose shared secret is empty. Prefix histories: every history of depth <= 2 over 10 state-reaching packets " +
					"(fresh, GETUSER pending, GETPASS pending, after PAP, authorization, accounting). Last packet: each of ~40 packet kinds (every user shape x login kinds, authorization and accounting of the odd users) unmutated, and for 14 representative kinds " +
					"every truncation, every single-octet corruption of every body offset (values 0, 0xff, orig+1), every header-octet corruption (0, 0xff, orig+1), length field lying by -1/+1/+100 and 65536/65537/2^32-1, zero-length and 65536-byte bodies; " +
					"raw stream junk: every string of length <= 6 over {0,1,0xff}; a temporary (non-timeout) accept failure between the hostile client and the next one. A client that sends one packet of every kind and then stops reading (the server's reply to it blocks in Write) while the control clients also send an accounting record and log in. Thorough adds proxy=true with well-formed and malformed PROXY lines. Oracle: the worker process survives; a control connection opened before the hostile one " +
					"and one opened after it both complete a command authorization with PASS. states = distinct loop-model states reached; transitions = packets delivered",
				Assumptions: []string{"a Go panic in any goroutine terminates the worker; the parent attributes it to the case written ahead"}}
		},
		Workers: constInt(16, 16),
		Run:     c14Run,
		Replay:  c14Replay,
	}
}

type c14Case struct {
	Cfg    string `json:"config"` // kc mode
	Prefix []rPkt `json:"prefix"`
	Last   *rPkt  `json:"last,omitempty"`
	Junk   string `json:"junk_hex,omitempty"`
	Scope  string `json:"scope"`
	Proxy  bool   `json:"proxy,omitempty"`
	// AcceptFault: the listener reports a temporary, non-timeout error (descriptor exhaustion caused by many
	// clients) before the next client connects
	AcceptFault bool   `json:"accept_fault,omitempty"`
	PLine       string `json:"proxy_line,omitempty"`
	// Stalled: the hostile client sends Last and then stops reading, so that the server's reply to it blocks in Write;
	// the other clients - which also send an accounting record and log in - must be served meanwhile
	Stalled bool `json:"stalled_reader,omitempty"`
}

// controlMore: an accounting record and a PAP login on a control connection (what another client may be doing while a
// hostile one holds the server up).
func (rw *rworld) controlMore(e *rEnv, rc *rConn, sid uint32) string {
	m := ref.NewMsg()
	m.N["flags"], m.N["authen_method"], m.N["priv_lvl"], m.N["authen_type"], m.N["authen_service"] = 2, 6, 1, 1, 1
	m.S["user"], m.S["port"], m.S["rem_addr"] = []byte("own"), []byte("tty9"), []byte("10.9.9.9")
	m.Args = [][]byte{[]byte("task_id=9")}
	body, _ := ref.AcctRequest.Encode(m)
	closed, err := rw.W.Deliver(rc.C, ref.Packet(ref.Header{Version: 0xc0, Type: 3, Seq: 1, Session: sid}, rc.Key, body))
	if err != nil {
		return "control connection hung on an accounting record: " + err.Error()
	}
	pk, rest := srvx.ParseStream(rc.C.Take())
	if closed || len(pk) != 1 || len(rest) != 0 {
		return fmt.Sprintf("control connection (accounting): closed=%v packets=%d", closed, len(pk))
	}
	if rm, cl := ref.AcctReply.Decode(ref.Obfuscate(pk[0].H, rc.Key, pk[0].Body)); cl != ref.Exact || rm.N["status"] != 1 {
		return "control connection: accounting record not answered SUCCESS"
	}
	typ, minor, pb := rPkt{Kind: "pap", User: "own", Pw: e.Sec.Own}.body()
	closed, err = rw.W.Deliver(rc.C, ref.Packet(ref.Header{Version: 0xc0 | minor, Type: typ, Seq: 1, Session: sid + 1}, rc.Key, pb))
	if err != nil {
		return "control connection hung on a login: " + err.Error()
	}
	pk, rest = srvx.ParseStream(rc.C.Take())
	if closed || len(pk) != 1 || len(rest) != 0 {
		return fmt.Sprintf("control connection (login): closed=%v packets=%d", closed, len(pk))
	}
	if rm, cl := ref.AuthenReply.Decode(ref.Obfuscate(pk[0].H, rc.Key, pk[0].Body)); cl != ref.Exact || rm.N["status"] != 1 {
		return "control connection: login not answered PASS"
	}
	return ""
}

func c14Env(kc string) *rEnv {
	e := c10Env(defaultSecrets(), kc)
	bad := []config.Command{{Name: "", Match: []string{"("}, Action: config.PERMIT}, {Name: "   ", Action: config.DENY}, {Name: "show", Match: []string{"(", "", "[a-"}, Action: config.PERMIT}, {Name: "*", Match: []string{"("}, Action: config.PERMIT}}
	badSvc := []config.Service{{Name: ""}, {Name: " ", SetValues: []config.Value{{Name: "", Values: nil}}}, {Name: "shell", Match: []config.Value{{Name: "", Values: []string{""}}}, SetValues: []config.Value{{Name: "x", Values: []string{""}, Optional: true}}}}
	odd := []config.User{
		{Name: "emptyhash", Scopes: []string{"s1"}, Authenticator: &config.Authenticator{Type: config.BCRYPT, Options: map[string]string{"hash": ""}}},
		{Name: "noopts", Scopes: []string{"s1"}, Authenticator: &config.Authenticator{Type: config.BCRYPT}},
		{Name: "keyonly", Scopes: []string{"s1"}, Authenticator: &config.Authenticator{Type: config.BCRYPT, Options: map[string]string{"key": "k", "group": "g"}}},
		{Name: "shaauth", Scopes: []string{"s1"}, Authenticator: &config.Authenticator{Type: config.SHA512, Options: map[string]string{"hash": "00"}}},
		{Name: "oddacct", Scopes: []string{"s1", "s3"}, Accounter: &config.Accounter{Name: "x", Type: config.SYSLOG}, Commands: bad, Services: badSvc},
		{Name: "nilacct", Scopes: []string{"s1", "s3"}, Accounter: &config.Accounter{Type: config.FILE}, Authenticator: bcryptAuthn("pw-s3"), Commands: bad, Services: badSvc,
			Groups: []config.Group{{Name: ""}, {Name: "g", Commands: bad, Services: badSvc}}},
		{Name: "", Scopes: []string{"s1"}, Authenticator: bcryptAuthn("pw-empty-name")},
	}
	e.Cfg.Users = append(e.Cfg.Users, odd...)
	e.Cfg.Secrets = append(e.Cfg.Secrets, scopeCfg("s3", "", "172.16.0.0/12"))
	if e.KC != nil && kc == "nil" {
		e.KC.Hash = map[string][]byte{}
	}
	return e
}

func c14KC(mode string) string {
	if mode == "nil" {
		return "ok"
	}
	return mode
}

func newC14Env(mode string) *rEnv {
	e := c14Env(c14KC(mode))
	if mode == "nil" {
		e.KC.Hash = map[string][]byte{}
	}
	e.KCMode = mode
	e.Name = "odd"
	return e
}

func (rw *rworld) openAddr(e *rEnv, scope string) (*rConn, error) {
	if scope == "s3" {
		c, err := rw.W.Open(srvx.Addr4(172, 16, 1, 1, 7300))
		return &rConn{C: c, M: ref.NewConnModel(), Scope: "s3", Key: []byte{}, last: map[uint32]int{}}, err
	}
	return rw.openR(e, scope)
}

// control performs one command authorization that must pass.
func (rw *rworld) control(e *rEnv, rc *rConn, sid uint32) string {
	m := ref.NewMsg()
	m.N["authen_method"], m.N["priv_lvl"], m.N["authen_type"], m.N["authen_service"] = 6, 1, 1, 1
	m.S["user"] = []byte("own")
	m.Args = [][]byte{[]byte("service=shell"), []byte("cmd=show")}
	body, _ := ref.AuthorRequest.Encode(m)
	h := ref.Header{Version: 0xc0, Type: 2, Seq: 1, Session: sid}
	closed, err := rw.W.Deliver(rc.C, ref.Packet(h, rc.Key, body))
	if err != nil {
		return "control connection hung: " + err.Error()
	}
	pk, rest := srvx.ParseStream(rc.C.Take())
	if closed || len(pk) != 1 || len(rest) != 0 {
		return fmt.Sprintf("control connection: closed=%v packets=%d", closed, len(pk))
	}
	rm, cl := ref.AuthorReply.Decode(ref.Obfuscate(pk[0].H, rc.Key, pk[0].Body))
	if cl != ref.Exact || rm.N["status"] != 1 {
		return "control connection: authorization not answered PASS_ADD"
	}
	return ""
}

func c14One(c *Ctx, rw *rworld, e *rEnv, cs c14Case, ctr *uint32) {
	c.R.Eval()
	c.Cur(cs)
	*ctr++
	if cs.Junk != "" || (cs.Last != nil && cs.Last.Mut != nil) || cs.Proxy {
		c.R.Distinct(evid.Hash(fmt.Sprintf("%+v", cs), cs.Last))
	}
	before, err := rw.openR(e, "s1")
	if err != nil {
		c.Abort("hang", err.Error(), cs)
	}
	rc, err := rw.openAddr(e, cs.Scope)
	if err != nil {
		c.Abort("hang", err.Error(), cs)
	}
	feedProxy := func() {
		if cs.Proxy {
			rc.C.Feed([]byte(cs.PLine))
		}
	}
	for d, p := range cs.Prefix {
		if rc.C.Closed() {
			break
		}
		feedProxy()
		if _, err := rw.deliverR(rc, d, p); err != nil {
			c.Abort("hang", fmt.Sprintf("%v in %+v", err, cs), cs)
		}
		c.R.Trans(1)
	}
	if cs.Stalled && cs.Last != nil && !rc.C.Closed() {
		// the hostile client sends its packet and stops reading
		rc.C.StallWrites()
		defer rc.C.ReleaseWrites()
		typ, minor, body := cs.Last.body()
		seq := rc.chooseSeq(sidOf(cs.Last.Sid), cs.Last.SeqMode)
		rc.C.Feed(ref.Packet(ref.Header{Version: 0xc0 | minor, Type: typ, Seq: byte(seq), Session: sidOf(cs.Last.Sid)}, rc.Key, body))
		if _, ok := rc.C.WaitSettled(srvx.HangTimeout); !ok {
			c.Abort("hang", fmt.Sprintf("the server neither answered nor went idle in %+v", cs), cs)
		}
		c.R.Trans(1)
	} else if !rc.C.Closed() {
		feedProxy()
		if cs.Last != nil {
			if _, err := rw.deliverR(rc, len(cs.Prefix), *cs.Last); err != nil {
				c.Abort("hang", fmt.Sprintf("%v in %+v", err, cs), cs)
			}
			c.R.State(evid.Hash(rc.M.Key()))
		} else {
			var junk []byte
			fmt.Sscanf(cs.Junk, "%x", &junk)
			if len(junk) > 0 {
				if _, err := rw.W.Deliver(rc.C, junk); err != nil {
					c.Abort("hang", fmt.Sprintf("%v in %+v", err, cs), cs)
				}
			}
		}
		c.R.Trans(1)
	}
	fail := func(what string) {
		c.R.ViolateMin("disturbed/"+firstWord(what), fmt.Sprintf("%s; case %+v", what, cs), cs, len(cs.Prefix)+1)
	}
	if cs.Proxy {
		// control connections speak the proxy framing too
		before.C.Feed([]byte("PROXY TCP4 10.7.7.7 10.0.0.1 7000 49\r\n\x00"))
	}
	if m := rw.control(e, before, 0xc0000000+*ctr); m != "" {
		fail("before: " + m)
	}
	if cs.Stalled {
		if m := rw.controlMore(e, before, 0xc2000000+2**ctr); m != "" {
			if strings.Contains(m, "hung") {
				// waiting out every further step would outlast the worker's budget: report and stop this worker now
				c.Abort("disturbed/stalled-client-blocks-others", "while a client that does not read its reply is connected: "+m, cs)
			}
			fail("before: " + m)
		}
	}
	if cs.AcceptFault {
		rw.W.L.PushErr(&net.OpError{Op: "accept", Net: "sim", Err: tempErr{}})
		rw.W.L.PushErr(&net.OpError{Op: "accept", Net: "sim", Err: tempErr{}})
	}
	after, err := rw.openR(e, "s1")
	if err != nil {
		if cs.AcceptFault {
			fail("after: the server stopped accepting connections after a temporary accept failure: " + err.Error())
			c.Abort("accept-fault-stops-server", "the server stopped accepting connections after a temporary (non-timeout) accept error", cs)
		}
		c.Abort("hang", err.Error(), cs)
	}
	if cs.Proxy {
		after.C.Feed([]byte("PROXY TCP4 10.7.7.7 10.0.0.1 7000 49\r\n\x00"))
	}
	if m := rw.control(e, after, 0xc1000000+*ctr); m != "" {
		fail("after: " + m)
	}
	if cs.Stalled {
		if m := rw.controlMore(e, after, 0xc3000000+2**ctr); m != "" {
			if strings.Contains(m, "hung") {
				c.Abort("disturbed/stalled-client-blocks-others", "while a client that does not read its reply is connected: "+m, cs)
			}
			fail("after: " + m)
		}
		rc.C.ReleaseWrites()
		if _, ok := rc.C.WaitIdleTimeout(srvx.HangTimeout); !ok {
			c.Abort("hang", fmt.Sprintf("the stalled connection did not become idle after the client resumed reading in %+v", cs), cs)
		}
	}
	for _, x := range []*rConn{before, rc, after} {
		if !x.C.Closed() {
			x.C.FeedEOF()
		}
	}
	c.R.Trace()
}

// tempErr is what accept(2) failing with EMFILE/ENFILE/ENOBUFS looks like: temporary, not a timeout.
type tempErr struct{}

func (tempErr) Error() string   { return "too many open files (simulated)" }
func (tempErr) Timeout() bool   { return false }
func (tempErr) Temporary() bool { return true }

func c14Kinds(e *rEnv) []rPkt {
	var a []rPkt
	users := []string{"own", "viagroup", "noauth", "badhex", "nothash", "keychain", "emptyhash", "noopts", "keyonly", "shaauth", "oddacct", "nilacct", "", "nobody"}
	for _, u := range users {
		a = append(a, rPkt{Kind: "pap", User: u, Pw: "some-password"}, rPkt{Kind: "ascii", User: u})
	}
	a = append(a, rPkt{Kind: "cont", Msg: "some-password"}, rPkt{Kind: "cont", Msg: ""}, rPkt{Kind: "cont", Msg: "x", Abort: true}, rPkt{Kind: "confusable", Pw: "q"})
	for _, u := range []string{"own", "oddacct", "nilacct", "noauth", ""} {
		for _, args := range [][]string{{"service=shell", "cmd=show"}, {"service=shell", "cmd=show", "cmd-arg=("}, {"service=shell", "cmd="}, {"service=", "cmd*"}, {"=", "*"}, {"nosep", "xx"}, {"service=shell"}, {}} {
			a = append(a, rPkt{Kind: "author", User: u, Args: args})
		}
		for _, fl := range []int{2, 4, 8, 0x0a, 0} {
			a = append(a, rPkt{Kind: "acct", User: u, Flags: fl})
		}
	}
	return a
}

func c14Prefixes(e *rEnv) [][]rPkt {
	state := []rPkt{{Kind: "ascii", User: ""}, {Kind: "ascii", User: "own"}, {Kind: "ascii", User: "noopts"}, {Kind: "cont", Msg: "own"}, {Kind: "cont", Msg: "keychain"},
		{Kind: "pap", User: "own", Pw: e.Sec.Own}, {Kind: "author", User: "own", Args: []string{"service=shell", "cmd=show"}}, {Kind: "acct", User: "own", Flags: 2},
		{Kind: "ascii", User: "", Sid: 1}, {Kind: "cont", Msg: "emptyhash"}}
	out := [][]rPkt{{}}
	for _, p := range state {
		out = append(out, []rPkt{p})
	}
	for _, p := range state {
		for _, q := range state {
			out = append(out, []rPkt{p, q})
		}
	}
	return out
}

func c14Mutations(p rPkt) []rPkt {
	_, _, body := p.body()
	var out []rPkt
	with := func(m rMut) { q := p; mm := m; q.Mut = &mm; out = append(out, q) }
	for t := 1; t <= len(body); t++ {
		with(rMut{Trunc: t})
	}
	for off := 0; off < len(body); off++ {
		for _, v := range []int{0, 0xff, -1} {
			with(rMut{Corrupt: true, Off: off, Val: v})
		}
	}
	for ho := 1; ho <= 12; ho++ {
		for _, v := range []int{0, 0xff, 1, 2} {
			with(rMut{HdrOff: ho, HdrVal: v})
		}
	}
	for _, d := range []int{-1, 1, 100} {
		with(rMut{LenAdd: d})
	}
	for _, l := range []int{65536, 65537, 0xffffffff, 1} {
		with(rMut{LenSet: l})
	}
	return out
}

func c14Run(c *Ctx) {
	modes := []string{"ok", "err", "nil"}
	job := 0
	var ctr uint32
	for _, mode := range modes {
		e := newC14Env(mode)
		rw, err := newRWorld(e.Cfg, e.KC, true)
		if err != nil {
			panic(err)
		}
		kinds := c14Kinds(e)
		prefixes := c14Prefixes(e)
		// (0) a client that sends one packet of every kind and then stops reading its replies
		for ki := range kinds {
			job++
			if !c.Mine(job) {
				continue
			}
			k := kinds[ki]
			c14One(c, rw, e, c14Case{Cfg: mode, Last: &k, Scope: "s1", Stalled: true}, &ctr)
		}
		// (1) every prefix x every kind, unmutated, on both hostile scopes
		for _, pre := range prefixes {
			job++
			if !c.Mine(job) {
				continue
			}
			if c.Quick && len(pre) == 2 && mode != "ok" && job%3 != 0 {
				continue
			}
			for ki := range kinds {
				k := kinds[ki]
				c14One(c, rw, e, c14Case{Cfg: mode, Prefix: pre, Last: &k, Scope: "s1"}, &ctr)
				if len(pre) <= 1 {
					c14One(c, rw, e, c14Case{Cfg: mode, Prefix: pre, Last: &k, Scope: "s3"}, &ctr)
				}
			}
			if c.Expired() {
				break
			}
		}
		// (1b) the same kinds with a temporary accept failure between the hostile client and the next one
		for ki := range kinds {
			job++
			if !c.Mine(job) || ki%4 != 0 {
				continue
			}
			k := kinds[ki]
			c14One(c, rw, e, c14Case{Cfg: mode, Last: &k, Scope: "s1", AcceptFault: true}, &ctr)
		}
		// (2) mutations of representative kinds after short prefixes
		reps := []rPkt{{Kind: "ascii", User: "own"}, {Kind: "pap", User: "own", Pw: "pw"}, {Kind: "pap", User: "noopts", Pw: "pw"}, {Kind: "cont", Msg: "own"}, {Kind: "cont", Msg: "pw", Abort: true},
			{Kind: "author", User: "own", Args: []string{"service=shell", "cmd=show", "cmd-arg=version"}}, {Kind: "author", User: "nilacct", Args: []string{"service=shell", "cmd=show"}},
			{Kind: "acct", User: "own", Flags: 2}, {Kind: "acct", User: "oddacct", Flags: 4}, {Kind: "author", User: "own", Args: []string{"service=ppp", "protocol=ip"}},
			{Kind: "ascii", User: ""}, {Kind: "pap", User: "keychain", Pw: "pw"}, {Kind: "author", User: "oddacct", Args: []string{"service=shell", "cmd="}}, {Kind: "acct", User: "nilacct", Flags: 8}}
		mutPrefixes := [][]rPkt{{}, {{Kind: "ascii", User: ""}}, {{Kind: "ascii", User: "own"}}, {{Kind: "ascii", User: "noopts"}}, {{Kind: "ascii", User: ""}, {Kind: "cont", Msg: "own"}}}
		if mode != "ok" && c.Quick {
			mutPrefixes = mutPrefixes[:3]
			reps = []rPkt{reps[2], reps[3], reps[11]}
		}
		for _, r := range reps {
			for _, pre := range mutPrefixes {
				for _, m := range c14Mutations(r) {
					job++
					if !c.Mine(job) {
						continue
					}
					mm := m
					c14One(c, rw, e, c14Case{Cfg: mode, Prefix: pre, Last: &mm, Scope: "s1"}, &ctr)
				}
			}
			if c.Expired() {
				break
			}
		}
		// (3) raw junk on a fresh connection and after a pending login
		if mode == "ok" {
			alpha := []byte{0, 1, 0xff}
			for n := 1; n <= 6; n++ {
				sizes := make([]int, n)
				for i := range sizes {
					sizes[i] = 3
				}
				forEachCombo(sizes, func(idx []int) bool {
					job++
					if !c.Mine(job) {
						return true
					}
					b := make([]byte, n)
					for i := range idx {
						b[i] = alpha[idx[i]]
					}
					c14One(c, rw, e, c14Case{Cfg: mode, Junk: fmt.Sprintf("%x", b), Scope: "s1"}, &ctr)
					c14One(c, rw, e, c14Case{Cfg: mode, Prefix: []rPkt{{Kind: "ascii", User: ""}}, Junk: fmt.Sprintf("%x", b), Scope: "s1"}, &ctr)
					return true
				})
			}
			for _, b := range [][]byte{make([]byte, 12), append(ref.Header{Version: 0xc0, Type: 1, Seq: 1, Length: 65536}.Encode(), make([]byte, 65536)...),
				append(ref.Header{Version: 0xc1, Type: 3, Seq: 1, Length: 0}.Encode(), 1, 2, 3)} {
				job++
				if c.Mine(job) {
					c14One(c, rw, e, c14Case{Cfg: mode, Junk: fmt.Sprintf("%x", b), Scope: "s1"}, &ctr)
				}
			}
		}
		if err := rw.stop(); err != nil {
			c.Abort("hang", err.Error(), nil)
		}
		// (4) thorough: proxy framing
		if !c.Quick && mode == "ok" {
			rwp, err := newRWorld(e.Cfg, e.KC, true, tq.SetUseProxy(true))
			if err != nil {
				panic(err)
			}
			lines := []string{"PROXY TCP4 10.7.7.7 10.0.0.1 7000 49\r\n\x00", "PROXY TCP6 ::1 ::1 1 2\r\n\x00", "PROXY\x00", "\x00", "PROXY UNKNOWN\r\n\x00", "PROXY TCP4 a b c d e f g\r\n\x00",
				"NOPE TCP4 1.1.1.1 2.2.2.2 1 2\r\n\x00", "PROXY TCP4 10.7.7.7 10.0.0.1 7000\x00", string(make([]byte, 300)) + "\x00", "PROXY TCP4 \xff\xfe 10.0.0.1 7000 49\r\n\x00"}
			for _, ln := range lines {
				for ki := range kinds {
					job++
					if !c.Mine(job) {
						continue
					}
					k := kinds[ki]
					c14One(c, rwp, e, c14Case{Cfg: mode, Last: &k, Scope: "s1", Proxy: true, PLine: ln}, &ctr)
					c14One(c, rwp, e, c14Case{Cfg: mode, Prefix: []rPkt{{Kind: "ascii", User: ""}}, Last: &k, Scope: "s1", Proxy: true, PLine: ln}, &ctr)
				}
			}
			rwp.stop()
		}
	}
	c.R.SampleCap(3, map[string]interface{}{"example_case": c14Case{Cfg: "ok", Prefix: []rPkt{{Kind: "ascii", User: ""}}, Last: &rPkt{Kind: "pap", User: "noopts", Pw: "pw", Mut: &rMut{Trunc: 3}}, Scope: "s1"}})
}

func c14Replay(c *Ctx, raw json.RawMessage) {
	var wrap struct {
		Case json.RawMessage `json:"case"`
	}
	var cs c14Case
	if json.Unmarshal(raw, &wrap) == nil && len(wrap.Case) > 0 {
		raw = wrap.Case
	}
	if err := json.Unmarshal(raw, &cs); err != nil {
		panic(err)
	}
	e := newC14Env(cs.Cfg)
	var opts []tq.Option
	if cs.Proxy {
		opts = append(opts, tq.SetUseProxy(true))
	}
	rw, err := newRWorld(e.Cfg, e.KC, true, opts...)
	if err != nil {
		panic(err)
	}
	defer rw.stop()
	var ctr uint32
	c14One(c, rw, e, cs, &ctr)
}
