//go:build sched

package checks

import (
	"github.com/facebookincubator/tacquito/cmds/server/config"
	"github.com/facebookincubator/tacquito/vsyncrt"
)

type cfgChan = *vsyncrt.Chan[config.ServerConfig]

func mkCfgChan(n int) cfgChan { return vsyncrt.MakeChan[config.ServerConfig](n) }

func cfgSend(ch cfgChan, c config.ServerConfig) { ch.Send(c) }

func schedReplayHook(c *Ctx, raw []byte) { schedReplayOne(c, raw) }
