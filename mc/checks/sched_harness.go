//go:build sched

package checks

import (
	"context"
	"encoding/json"
	"errors"
	"fmt"
	"net"
	"os"
	"reflect"
	"runtime"
	"sort"
	"strings"
	"sync/atomic"
	"time"

	tq "github.com/facebookincubator/tacquito"
	"github.com/facebookincubator/tacquito/cmds/server/config"
	"github.com/facebookincubator/tacquito/cmds/server/config/accounters/local"
	bcryptauth "github.com/facebookincubator/tacquito/cmds/server/config/authenticators/bcrypt"
	"github.com/facebookincubator/tacquito/cmds/server/config/authorizers/stringy"
	"github.com/facebookincubator/tacquito/cmds/server/config/secret"
	"github.com/facebookincubator/tacquito/cmds/server/config/secret/prefix"
	"github.com/facebookincubator/tacquito/cmds/server/handlers"
	"github.com/facebookincubator/tacquito/cmds/server/loader"
	jsonloader "github.com/facebookincubator/tacquito/cmds/server/loader/json"
	yamlloader "github.com/facebookincubator/tacquito/cmds/server/loader/yaml"
	"github.com/facebookincubator/tacquito/vsyncrt"

	"verif/mc/evid"
	"verif/mc/ref"
	"verif/mc/srvx"
)

// Engine E2 harnesses: the real (instrumented) code under the controlled scheduler, built with -race.

// sx is the per-execution scratch of a harness body (written by thread 0 only, after joining the others).
type sx struct {
	viol []string // oracle violations: "key|message"
	obs  string   // observable outcome of this execution (for distinct-outcome counting)
}

func (x *sx) fail(key, msg string) { x.viol = append(x.viol, key+"|"+msg) }

type sjob struct {
	name string
	body func(x *sx)
}

type sworld struct {
	W         *vsyncrt.World
	L         *vsyncrt.Listener
	srv       *tq.Server
	ctx       context.Context
	cancel    context.CancelFunc
	ld        *loader.Loader
	feed      cfgFeed
	serveDone vsyncrt.WaitGroup
	lg        *srvx.Logger
	sink      *sinkRec
}

// cfgSource is what loader.NewLoader consumes configurations from (the instrumented signature of Config()).
type cfgSource interface{ Config() cfgChan }

// gatedKeychain is a secret store whose answer can be held back: while armed, every fetch waits for a token on gate.
type gatedKeychain struct {
	gate  *vsyncrt.Chan[struct{}]
	armed atomic.Bool
}

func (g *gatedKeychain) Add(k config.Keychain) func(context.Context, string) ([]byte, error) {
	return func(ctx context.Context, name string) ([]byte, error) {
		if g.armed.Load() {
			g.gate.Recv()
		}
		return []byte(k.Key), nil
	}
}

// sloaderKeychain, when set, replaces the reference keychain in newSLoader (reset by the job that set it).
var sloaderKeychain interface {
	Add(k config.Keychain) func(context.Context, string) ([]byte, error)
}

// sloaderAcctPath, when set, makes newSLoader use the accounter's DEFAULT sink (a file at that path) instead of the
// recording sink (reset by the job that set it).
var sloaderAcctPath string

func newSLoader(ctx context.Context, lg *srvx.Logger, sink *sinkRec, kc *keychainRec, feed cfgSource) *loader.Loader {
	opt := local.SetLogSink(sink)
	if sloaderAcctPath != "" {
		opt = local.SetLogSinkDefault(sloaderAcctPath, "")
	}
	acct, err := local.New(lg, opt)
	if err != nil {
		panic(err)
	}
	if kc == nil {
		kc = &keychainRec{}
	}
	ld, err := loader.NewLoader(ctx, feed,
		loader.SetLoggerProvider(lg),
		func() loader.Option {
			if sloaderKeychain != nil {
				return loader.SetKeychainProvider(sloaderKeychain)
			}
			return loader.SetKeychainProvider(secret.New())
		}(),
		loader.SetConfigProvider(config.New()),
		loader.SetAuthorizerProvider(stringy.New(lg)),
		loader.RegisterSecretProviderType(config.PREFIX, prefix.New(lg)),
		loader.RegisterHandlerType(config.START, handlers.NewStart(lg)),
		loader.RegisterAuthenticator(config.BCRYPT, bcryptauth.New(lg, kc)),
		loader.RegisterAccounter(config.FILE, acct),
	)
	if err != nil {
		panic(err)
	}
	return ld
}

// newSWorldR: the reference server stack (must be called on thread 0 of a controlled execution).
func newSWorldR(cfg config.ServerConfig, kc *keychainRec) *sworld {
	w := &sworld{W: vsyncrt.NewWorld(), lg: &srvx.Logger{}, sink: &sinkRec{}}
	w.L = w.W.NewListener()
	w.ctx, w.cancel = context.WithCancel(context.Background())
	w.feed = cfgFeed{ch: mkCfgChan(1)}
	w.ld = newSLoader(w.ctx, w.lg, w.sink, kc, w.feed)
	w.feed.ch.Send(cfg)
	w.ld.BlockUntilLoaded()
	w.srv = tq.NewServer(w.lg, w.ld)
	return w
}

// newSWorldL: library flavour, fixed key and handler.
func newSWorldL(key []byte, h tq.Handler) *sworld {
	w := &sworld{W: vsyncrt.NewWorld(), lg: &srvx.Logger{}}
	w.L = w.W.NewListener()
	w.ctx, w.cancel = context.WithCancel(context.Background())
	w.srv = tq.NewServer(w.lg, srvx.FixedSecret{Key: key, H: h})
	return w
}

func (w *sworld) serve() {
	w.serveDone.Add(1)
	vsyncrt.Go(func() {
		w.srv.Serve(w.ctx, w.L)
		w.W.Mark("serve-return")
		w.serveDone.Done()
	})
}

// shutdown cancels, lets the accept deadline fire so that the loop observes the cancellation, and waits for Serve.
func (w *sworld) shutdown() {
	w.cancel()
	w.L.FireDeadline()
	w.serveDone.Wait()
}

// sclient connects, sends each packet and waits for one complete reply (or the close) after each.
func sclient(w *sworld, conn *vsyncrt.Conn, pkts [][]byte, replies *[][]byte, eof bool) {
	w.L.Push(conn)
	for _, p := range pkts {
		conn.Feed(p)
		var buf []byte
		for {
			b, closed := conn.Await(1)
			buf = append(buf, b...)
			if pk, rest := srvx.ParseStream(buf); len(pk) >= 1 && len(rest) == 0 {
				*replies = append(*replies, buf)
				break
			}
			if closed {
				*replies = append(*replies, nil)
				return
			}
		}
	}
	if eof {
		conn.FeedEOF()
	}
}

func authorPkt(key []byte, user string, sid uint32, args ...string) []byte {
	m := ref.NewMsg()
	m.N["authen_method"], m.N["priv_lvl"], m.N["authen_type"], m.N["authen_service"] = 6, 1, 1, 1
	m.S["user"] = []byte(user)
	for _, a := range args {
		m.Args = append(m.Args, []byte(a))
	}
	body, _ := ref.AuthorRequest.Encode(m)
	return ref.Packet(ref.Header{Version: 0xc0, Type: 2, Seq: 1, Session: sid}, key, body)
}

func replyStatus(key []byte, wire []byte, typ byte) int {
	pk, _ := srvx.ParseStream(wire)
	if len(pk) != 1 {
		return -1
	}
	m, cl := replyLayouts[typ].Decode(ref.Obfuscate(pk[0].H, key, pk[0].Body))
	if cl != ref.Exact {
		return -2
	}
	return m.N["status"]
}

func transcriptOf(key []byte, replies [][]byte) string {
	var b strings.Builder
	for _, r := range replies {
		pk, rest := srvx.ParseStream(r)
		fmt.Fprintf(&b, "[n=%d rest=%d", len(pk), len(rest))
		for _, p := range pk {
			fmt.Fprintf(&b, " %+v %x", p.H, ref.Obfuscate(p.H, key, p.Body))
		}
		b.WriteString("]")
	}
	return b.String()
}

// ---------------- C15 harnesses ----------------

// c15H17: two connections send accounting records (small ones and one of the largest a request can carry) through the
// accounter's default sink, a file, while the virtual clock passes several seconds: whatever the sink does on a timer
// (flushing, re-opening, rotating) runs against the requests' writes. With /dev/full every write to the file fails.
func c15H17(x *sx, e *rEnv, key []byte, path string) {
	if path == "" {
		f, err := os.CreateTemp("", "verif-acct-*")
		if err != nil {
			panic(err)
		}
		path = f.Name()
		f.Close()
		defer os.Remove(path)
	}
	sloaderAcctPath = path
	defer func() { sloaderAcctPath = "" }()
	// the accounter never closes its file: descriptors of earlier executions are closed by the files' finalizers
	if h17Runs++; h17Runs%256 == 0 {
		runtime.GC()
	}
	w := newSWorldR(e.Cfg, nil)
	w.serve()
	acct := func(sid, flags int, args []string) []byte {
		typ, minor, body := rPkt{Kind: "acct", User: "own", Flags: flags, Args: args}.body()
		return ref.Packet(ref.Header{Version: 0xc0 | minor, Type: typ, Seq: 1, Session: sidOf(sid)}, key, body)
	}
	var big []string
	for i := 0; i < 255; i++ {
		big = append(big, "k="+strings.Repeat("v", 253))
	}
	small := []string{"task_id=1", "cmd=show version"}
	var r1, r2 [][]byte
	c1 := w.W.NewConn(1, srvx.Addr4(10, 0, 0, 1, 1001))
	c2 := w.W.NewConn(2, srvx.Addr4(10, 0, 0, 2, 1002))
	sclient(w, c1, [][]byte{acct(10, 2, small)}, &r1, false)
	vsyncrt.Quiesce()
	vsyncrt.Advance(time.Second) // from here on a one-second timer is due
	var wg vsyncrt.WaitGroup
	wg.Add(2)
	vsyncrt.Go(func() {
		conn := c1
		for _, p := range [][]byte{acct(11, 4, big), acct(12, 2, small)} {
			conn.Feed(p)
			r1 = append(r1, sawait(conn))
		}
		conn.FeedEOF()
		wg.Done()
	})
	vsyncrt.Go(func() { sclient(w, c2, [][]byte{acct(20, 2, small), acct(21, 4, big)}, &r2, true); wg.Done() })
	wg.Wait()
	for i := 0; i < 2; i++ {
		vsyncrt.Quiesce()
		vsyncrt.Advance(time.Second)
	}
	vsyncrt.Quiesce()
	w.shutdown()
	if len(r1) != 3 || len(r2) != 2 {
		x.fail("H17/functional", fmt.Sprintf("%d and %d replies for 3 and 2 accounting requests", len(r1), len(r2)))
	}
	for _, r := range append(append([][]byte{}, r1...), r2...) {
		if st := replyStatus(key, r, 3); st != 1 && st != 2 {
			x.fail("H17/functional", fmt.Sprintf("an accounting request was answered with status %#x (neither SUCCESS nor ERROR)", st))
		}
	}
	x.obs = transcriptOf(key, r1) + transcriptOf(key, r2)
}

var h17Runs int

// sawait collects one complete reply packet from conn (nil when the connection was closed first).
func sawait(conn *vsyncrt.Conn) []byte {
	var buf []byte
	for {
		b, closed := conn.Await(1)
		buf = append(buf, b...)
		if pk, rest := srvx.ParseStream(buf); len(pk) >= 1 && len(rest) == 0 {
			return buf
		}
		if closed {
			return nil
		}
	}
}

func c15Jobs() []sjob {
	e := newREnv(defaultSecrets(), "")
	key := []byte(e.Sec.Key1)
	addr := func(n byte) *vsyncrt.Conn { return nil }
	_ = addr
	return []sjob{
		{"H1 two connections, same user, one command authorization each", func(x *sx) {
			w := newSWorldR(e.Cfg, nil)
			w.serve()
			var r1, r2 [][]byte
			var wg vsyncrt.WaitGroup
			wg.Add(2)
			c1 := w.W.NewConn(1, srvx.Addr4(10, 0, 0, 1, 1001))
			c2 := w.W.NewConn(2, srvx.Addr4(10, 0, 0, 2, 1002))
			vsyncrt.Go(func() {
				sclient(w, c1, [][]byte{authorPkt(key, "own", 1, "service=shell", "cmd=configure", "cmd-arg=terminal")}, &r1, true)
				wg.Done()
			})
			vsyncrt.Go(func() {
				sclient(w, c2, [][]byte{authorPkt(key, "own", 2, "service=shell", "cmd=configure", "cmd-arg=terminal")}, &r2, true)
				wg.Done()
			})
			wg.Wait()
			w.shutdown()
			for i, r := range [][][]byte{r1, r2} {
				if len(r) != 1 || replyStatus(key, r[0], 2) != 1 {
					x.fail("H1/functional", fmt.Sprintf("client %d: authorization not answered PASS_ADD", i+1))
				}
			}
			x.obs = transcriptOf(key, r1) + transcriptOf(key, r2)
		}},
		{"H2 accept loop with connections opening and closing", func(x *sx) {
			w := newSWorldR(e.Cfg, nil)
			w.serve()
			var r1, r2, r3 [][]byte
			var wg vsyncrt.WaitGroup
			wg.Add(3)
			c1 := w.W.NewConn(1, srvx.Addr4(10, 0, 0, 1, 1001))
			c2 := w.W.NewConn(2, srvx.Addr4(10, 0, 0, 2, 1002))
			c3 := w.W.NewConn(3, srvx.Addr4(172, 31, 0, 9, 1003)) // refused at admission
			vsyncrt.Go(func() { sclient(w, c1, nil, &r1, true); wg.Done() })
			vsyncrt.Go(func() {
				sclient(w, c2, [][]byte{authorPkt(key, "own", 2, "service=shell", "cmd=show")}, &r2, true)
				wg.Done()
			})
			vsyncrt.Go(func() { sclient(w, c3, nil, &r3, false); wg.Done() })
			wg.Wait()
			w.shutdown()
			if len(r2) != 1 || replyStatus(key, r2[0], 2) != 1 {
				x.fail("H2/functional", "authorization not answered PASS_ADD")
			}
			if w.L.Accepted == 3 && !c3.Closed() {
				x.fail("H2/functional", "refused connection was accepted but not closed")
			}
			x.obs = transcriptOf(key, r2)
		}},
		{"H3 two lookups concurrent with a reload of a different configuration", func(x *sx) {
			c15H3(x, false)
		}},
		{"H3b lookup concurrent with two reloads", func(x *sx) {
			c15H3(x, true)
		}},
		{"H4-yaml consumer of a published configuration concurrent with the next load", func(x *sx) { c15H4(x, "yaml") }},
		{"H4-json consumer of a published configuration concurrent with the next load", func(x *sx) { c15H4(x, "json") }},
		{"H11 two connections logging the same user in (PAP), one with the right and one with a wrong password", func(x *sx) {
			w := newSWorldR(e.Cfg, nil)
			w.serve()
			var r1, r2 [][]byte
			var wg vsyncrt.WaitGroup
			wg.Add(2)
			c1 := w.W.NewConn(1, srvx.Addr4(10, 0, 0, 1, 1001))
			c2 := w.W.NewConn(2, srvx.Addr4(10, 0, 0, 2, 1002))
			pap := func(pw string, sid int) []byte {
				typ, minor, body := rPkt{Kind: "pap", User: "own", Pw: pw}.body()
				return ref.Packet(ref.Header{Version: 0xc0 | minor, Type: typ, Seq: 1, Session: sidOf(sid)}, key, body)
			}
			vsyncrt.Go(func() { sclient(w, c1, [][]byte{pap(e.Sec.Own, 0)}, &r1, true); wg.Done() })
			vsyncrt.Go(func() { sclient(w, c2, [][]byte{pap("wrong", 0)}, &r2, true); wg.Done() })
			wg.Wait()
			w.shutdown()
			if len(r1) != 1 || replyStatus(key, r1[0], 1) != 1 {
				x.fail("H11/functional", "the login with the right password was not answered PASS")
			}
			if len(r2) != 1 || replyStatus(key, r2[0], 1) != 2 {
				x.fail("H11/functional", "the login with a wrong password was not answered FAIL")
			}
			x.obs = transcriptOf(key, r1) + transcriptOf(key, r2)
		}},
		{"H12 load of a configuration whose user sits in three scopes, with group rules merged into slices that have spare capacity (as a JSON decode leaves them)", func(x *sx) {
			lg, sink := &srvx.Logger{}, &sinkRec{}
			ctx, cancel := context.WithCancel(context.Background())
			defer cancel()
			svcs := make([]config.Service, 1, 8)
			svcs[0] = config.Service{Name: "shell", SetValues: []config.Value{{Name: "priv-lvl", Values: []string{"1"}}}}
			cmds := make([]config.Command, 1, 8)
			cmds[0] = config.Command{Name: "show", Action: config.PERMIT}
			grp := config.Group{Name: "g", Services: []config.Service{{Name: "ppp", SetValues: []config.Value{{Name: "addr", Values: []string{"1.2.3.4"}}}}},
				Commands: []config.Command{{Name: "ping", Action: config.PERMIT}}}
			cfg := config.ServerConfig{
				Secrets: []config.SecretConfig{scopeCfg("a", "key-a", "10.0.0.0/8"), scopeCfg("b", "key-b", "172.16.0.0/12"), scopeCfg("c", "key-c", "192.168.0.0/16")},
				Users:   []config.User{{Name: "multi", Scopes: []string{"a", "b", "c"}, Services: svcs, Commands: cmds, Groups: []config.Group{grp}}},
			}
			feed := cfgFeed{ch: mkCfgChan(1)}
			ld := newSLoader(ctx, lg, sink, nil, feed)
			feed.ch.Send(cfg)
			ld.BlockUntilLoaded()
			for i, a := range []net.Addr{srvx.Addr4(10, 1, 1, 1, 9), srvx.Addr4(172, 16, 1, 1, 9), srvx.Addr4(192, 168, 1, 1, 9)} {
				secret, h, err := ld.Get(context.Background(), a)
				if err != nil || h == nil || string(secret) != []string{"key-a", "key-b", "key-c"}[i] {
					x.fail("H12/functional", fmt.Sprintf("scope %d: lookup answered secret %q err %v", i, secret, err))
				}
			}
			x.obs = "ok"
		}},
		{"H10-yaml the loader's update loop polling a file loader while the watcher loads the next document", func(x *sx) { c15H10(x, "yaml") }},
		{"H10-json the loader's update loop polling a file loader while the watcher loads the next document", func(x *sx) { c15H10(x, "json") }},
		{"H5 one connection multiplexing two sessions plus a second connection", func(x *sx) {
			w := newSWorldR(e.Cfg, nil)
			w.serve()
			var r1, r2 [][]byte
			var wg vsyncrt.WaitGroup
			wg.Add(2)
			c1 := w.W.NewConn(1, srvx.Addr4(10, 0, 0, 1, 1001))
			c2 := w.W.NewConn(2, srvx.Addr4(10, 0, 0, 2, 1002))
			pk := func(p rPkt, seq byte) []byte {
				typ, minor, body := p.body()
				return ref.Packet(ref.Header{Version: 0xc0 | minor, Type: typ, Seq: seq, Session: sidOf(p.Sid)}, key, body)
			}
			vsyncrt.Go(func() {
				sclient(w, c1, [][]byte{pk(rPkt{Kind: "ascii", Sid: 0}, 1), pk(rPkt{Kind: "ascii", User: "viagroup", Sid: 1}, 1), pk(rPkt{Kind: "cont", Msg: "own", Sid: 0}, 3),
					pk(rPkt{Kind: "cont", Msg: "x", Abort: true, Sid: 1}, 3)}, &r1, true)
				wg.Done()
			})
			vsyncrt.Go(func() {
				sclient(w, c2, [][]byte{pk(rPkt{Kind: "ascii", Sid: 0}, 1), authorPkt(key, "own", 9, "service=ppp", "protocol=ip")}, &r2, true)
				wg.Done()
			})
			wg.Wait()
			w.shutdown()
			want1 := []int{4, 5, 5, 2}
			for i, r := range r1 {
				if replyStatus(key, r, 1) != want1[i] {
					x.fail("H5/functional", fmt.Sprintf("multiplexed connection: reply %d has status %d, want %d", i, replyStatus(key, r, 1), want1[i]))
				}
			}
			if len(r2) != 2 || replyStatus(key, r2[0], 1) != 4 || replyStatus(key, r2[1], 2) != 1 {
				x.fail("H5/functional", "second connection: unexpected replies")
			}
			x.obs = transcriptOf(key, r1) + transcriptOf(key, r2)
		}},
		{"H7 reload of a different configuration while a connection is being served", func(x *sx) {
			w := newSWorldR(e.Cfg, nil)
			w.serve()
			// the new configuration denies what the old one permits and moves the scope to another key
			e2 := newREnv(defaultSecrets(), "")
			for i := range e2.Cfg.Users {
				if e2.Cfg.Users[i].Name == "own" {
					e2.Cfg.Users[i].Commands = []config.Command{{Name: "show", Action: config.DENY}}
				}
			}
			var r1 [][]byte
			var wg vsyncrt.WaitGroup
			wg.Add(2)
			c1 := w.W.NewConn(1, srvx.Addr4(10, 0, 0, 1, 1001))
			vsyncrt.Go(func() {
				sclient(w, c1, [][]byte{authorPkt(key, "own", 1, "service=shell", "cmd=show"), authorPkt(key, "own", 2, "service=shell", "cmd=show")}, &r1, true)
				wg.Done()
			})
			vsyncrt.Go(func() { w.feed.ch.Send(e2.Cfg); wg.Done() })
			wg.Wait()
			w.shutdown()
			// a connection is bound to the configuration it was admitted under: both answers come from one configuration
			if len(r1) == 2 {
				a, b := replyStatus(key, r1[0], 2), replyStatus(key, r1[1], 2)
				if !((a == 1 && b == 1) || (a == 0x10 && b == 0x10)) {
					x.fail("H7/mixed-configuration", fmt.Sprintf("one connection was answered from two configurations: statuses %#x then %#x", a, b))
				}
			} else {
				x.fail("H7/functional", fmt.Sprintf("%d replies for 2 requests", len(r1)))
			}
			x.obs = transcriptOf(key, r1)
		}},
		{"H16 a lookup held up in the secret store across a reload, then another lookup for the same address", func(x *sx) {
			g := &gatedKeychain{gate: vsyncrt.MakeChan[struct{}]()}
			sloaderKeychain = g
			defer func() { sloaderKeychain = nil }()
			lg, sink := &srvx.Logger{}, &sinkRec{}
			ctx, cancel := context.WithCancel(context.Background())
			defer cancel()
			user := config.User{Name: "u", Scopes: []string{"s"}, Commands: []config.Command{{Name: "show", Action: config.PERMIT}}}
			cfgA := config.ServerConfig{Secrets: []config.SecretConfig{scopeCfg("s", "key-A", "10.0.0.0/8")}, Users: []config.User{user}}
			cfgB := config.ServerConfig{Secrets: []config.SecretConfig{scopeCfg("s", "key-B", "10.0.0.0/8")}, Users: []config.User{user}}
			feed := cfgFeed{ch: mkCfgChan(1)}
			ld := newSLoader(ctx, lg, sink, nil, feed)
			feed.ch.Send(cfgA)
			ld.BlockUntilLoaded()
			addr := srvx.Addr4(10, 1, 1, 7, 99)
			var first []byte
			var wg vsyncrt.WaitGroup
			wg.Add(1)
			g.armed.Store(true)
			vsyncrt.Go(func() {
				first, _, _ = ld.Get(context.Background(), addr)
				wg.Done()
			})
			vsyncrt.Quiesce() // the lookup is waiting for the secret store
			g.armed.Store(false)
			feed.ch.Send(cfgB)
			feed.ch.Send(cfgB) // the one-slot channel has taken the second value only when the first was consumed
			vsyncrt.Quiesce()
			g.gate.Send(struct{}{})
			wg.Wait()
			vsyncrt.Quiesce()
			second, _, err := ld.Get(context.Background(), addr)
			if string(first) != "key-A" && string(first) != "key-B" {
				x.fail("H16/functional", fmt.Sprintf("the held-up lookup was answered %q", first))
			}
			if err != nil || string(second) != "key-B" {
				x.fail("H16/stale-after-reload", fmt.Sprintf("a lookup made after the reload had completed was answered secret %q (err %v); the configuration in force says key-B", second, err))
			}
			x.obs = string(first) + string(second)
		}},
		{"H17-full accounting through the DEFAULT file sink while the clock ticks; the file is /dev/full (every write fails)", func(x *sx) {
			c15H17(x, e, key, "/dev/full")
		}},
		{"H17-file accounting through the DEFAULT file sink while the clock ticks; the file is a scratch file", func(x *sx) {
			c15H17(x, e, key, "")
		}},
		{"H18 two connections of clients that use a key the server does not have (the server answers each with its bad-secret reply)", func(x *sx) {
			w := newSWorldR(e.Cfg, nil)
			w.serve()
			wrong := []byte("not-the-key-of-this-scope")
			var r1, r2 [][]byte
			var wg vsyncrt.WaitGroup
			wg.Add(2)
			c1 := w.W.NewConn(1, srvx.Addr4(10, 0, 0, 1, 1001))
			c2 := w.W.NewConn(2, srvx.Addr4(10, 0, 0, 2, 1002))
			vsyncrt.Go(func() {
				sclient(w, c1, [][]byte{authorPkt(wrong, "own", 1, "service=shell", "cmd=show")}, &r1, true)
				wg.Done()
			})
			vsyncrt.Go(func() {
				sclient(w, c2, [][]byte{authorPkt(wrong, "own", 2, "service=shell", "cmd=show")}, &r2, true)
				wg.Done()
			})
			wg.Wait()
			// a third one afterwards: what the server sends must still be its bad-secret reply
			var r3 [][]byte
			c3 := w.W.NewConn(3, srvx.Addr4(10, 0, 0, 3, 1003))
			sclient(w, c3, [][]byte{authorPkt(wrong, "own", 3, "service=shell", "cmd=show")}, &r3, true)
			w.shutdown()
			for i, r := range [][][]byte{r1, r2, r3} {
				if len(r) != 1 || r[0] == nil {
					x.fail("H18/functional", fmt.Sprintf("connection %d: no reply to a packet under a wrong key", i+1))
					continue
				}
				// the reply is obfuscated with the SERVER's key: it must decode to an authorization ERROR
				if st := replyStatus(key, r[0], 2); st != 0x11 {
					x.fail("H18/functional", fmt.Sprintf("connection %d: the reply to a packet under a wrong key does not decode (server's key) to an authorization ERROR: status %#x", i+1, st))
				}
			}
			x.obs = transcriptOf(key, r1) + transcriptOf(key, r2) + transcriptOf(key, r3)
		}},
		{"H15 two connections of a server whose secret provider hands out ONE key slice (with spare capacity) to every connection", func(x *sx) {
			shared := append(make([]byte, 0, 64), "shared-secret-15"...)
			w := newSWorldL(shared, c17Handler{w: nil})
			w.srv = tq.NewServer(w.lg, srvx.FixedSecret{Key: shared, H: h15Handler{}})
			w.serve()
			var r1, r2 [][]byte
			var wg vsyncrt.WaitGroup
			wg.Add(2)
			c1 := w.W.NewConn(1, srvx.Addr4(10, 0, 0, 1, 1001))
			c2 := w.W.NewConn(2, srvx.Addr4(10, 0, 0, 2, 1002))
			k := []byte("shared-secret-15")
			vsyncrt.Go(func() {
				sclient(w, c1, [][]byte{authorPkt(k, "u", 1, "service=shell", "cmd=show"), authorPkt(k, "u", 3, "service=shell", "cmd=show")}, &r1, true)
				wg.Done()
			})
			vsyncrt.Go(func() {
				sclient(w, c2, [][]byte{authorPkt(k, "u", 2, "service=shell", "cmd=show"), authorPkt(k, "u", 4, "service=shell", "cmd=show")}, &r2, true)
				wg.Done()
			})
			wg.Wait()
			w.shutdown()
			for i, r := range [][][]byte{r1, r2} {
				for j := range r {
					if replyStatus(k, r[j], 2) != 1 {
						x.fail("H15/functional", fmt.Sprintf("connection %d request %d: not answered PASS_ADD under the shared key", i+1, j+1))
					}
				}
				if len(r) != 2 {
					x.fail("H15/functional", fmt.Sprintf("connection %d: %d replies for 2 requests", i+1, len(r)))
				}
			}
			x.obs = transcriptOf(k, r1) + transcriptOf(k, r2)
		}},
		{"H14 two connections asking for user names in spellings the configuration does not have", func(x *sx) {
			w := newSWorldR(e.Cfg, nil)
			w.serve()
			var r1, r2 [][]byte
			var wg vsyncrt.WaitGroup
			wg.Add(2)
			c1 := w.W.NewConn(1, srvx.Addr4(10, 0, 0, 1, 1001))
			c2 := w.W.NewConn(2, srvx.Addr4(10, 0, 0, 2, 1002))
			acct := func(user string, sid int) []byte {
				typ, minor, body := rPkt{Kind: "acct", User: user, Flags: 2}.body()
				return ref.Packet(ref.Header{Version: 0xc0 | minor, Type: typ, Seq: 1, Session: sidOf(sid)}, key, body)
			}
			vsyncrt.Go(func() {
				sclient(w, c1, [][]byte{authorPkt(key, "OWN", 1, "service=shell", "cmd=show"), acct(" own", 3)}, &r1, true)
				wg.Done()
			})
			vsyncrt.Go(func() {
				sclient(w, c2, [][]byte{acct("Own ", 2), authorPkt(key, "oWn", 4, "service=shell", "cmd=show")}, &r2, true)
				wg.Done()
			})
			wg.Wait()
			w.shutdown()
			if len(r1) != 2 || len(r2) != 2 {
				x.fail("H14/functional", fmt.Sprintf("%d and %d replies for 2 requests each", len(r1), len(r2)))
			}
			x.obs = transcriptOf(key, r1) + transcriptOf(key, r2)
		}},
		{"H13 reload introducing new command patterns while a command with pattern rules is being authorized", func(x *sx) {
			w := newSWorldR(e.Cfg, nil)
			w.serve()
			// the new configuration turns the permit into a deny and matches through patterns no earlier configuration had
			e2 := newREnv(defaultSecrets(), "")
			for i := range e2.Cfg.Users {
				if e2.Cfg.Users[i].Name == "own" {
					e2.Cfg.Users[i].Commands = []config.Command{{Name: "configure", Match: []string{"exclusive", "t[a-z]+l"}, Action: config.DENY}}
				}
			}
			var r1 [][]byte
			var wg vsyncrt.WaitGroup
			wg.Add(2)
			c1 := w.W.NewConn(1, srvx.Addr4(10, 0, 0, 1, 1001))
			vsyncrt.Go(func() {
				sclient(w, c1, [][]byte{authorPkt(key, "own", 1, "service=shell", "cmd=configure", "cmd-arg=terminal"), authorPkt(key, "own", 2, "service=shell", "cmd=configure", "cmd-arg=terminal")}, &r1, true)
				wg.Done()
			})
			vsyncrt.Go(func() { w.feed.ch.Send(e2.Cfg); wg.Done() })
			wg.Wait()
			w.shutdown()
			if len(r1) == 2 {
				a, b := replyStatus(key, r1[0], 2), replyStatus(key, r1[1], 2)
				if !((a == 1 && b == 1) || (a == 0x10 && b == 0x10)) {
					x.fail("H13/mixed-configuration", fmt.Sprintf("one connection was answered from two configurations: statuses %#x then %#x", a, b))
				}
			} else {
				x.fail("H13/functional", fmt.Sprintf("%d replies for 2 requests", len(r1)))
			}
			x.obs = transcriptOf(key, r1)
		}},
		{"H19 two connections, same user, one command authorization each; the user's rules come from its own list and two groups, merged into a slice with spare capacity", func(x *sx) {
			e2 := newREnv(defaultSecrets(), "")
			for i := range e2.Cfg.Users {
				if e2.Cfg.Users[i].Name == "own" {
					cmds := make([]config.Command, 0, 8)
					cmds = append(cmds, config.Command{Name: "configure", Match: []string{"terminal"}, Action: config.PERMIT})
					e2.Cfg.Users[i].Commands = cmds
					e2.Cfg.Users[i].Groups = append(e2.Cfg.Users[i].Groups,
						config.Group{Name: "h19-a", Commands: []config.Command{{Name: "ping", Action: config.PERMIT}}},
						config.Group{Name: "h19-b", Commands: []config.Command{{Name: "traceroute", Action: config.PERMIT}}})
				}
			}
			w := newSWorldR(e2.Cfg, nil)
			w.serve()
			var r1, r2 [][]byte
			var wg vsyncrt.WaitGroup
			wg.Add(2)
			c1 := w.W.NewConn(1, srvx.Addr4(10, 0, 0, 1, 1001))
			c2 := w.W.NewConn(2, srvx.Addr4(10, 0, 0, 2, 1002))
			vsyncrt.Go(func() {
				sclient(w, c1, [][]byte{authorPkt(key, "own", 1, "service=shell", "cmd=traceroute")}, &r1, true)
				wg.Done()
			})
			vsyncrt.Go(func() {
				sclient(w, c2, [][]byte{authorPkt(key, "own", 2, "service=shell", "cmd=reload")}, &r2, true)
				wg.Done()
			})
			wg.Wait()
			w.shutdown()
			if len(r1) != 1 || replyStatus(key, r1[0], 2) != 1 {
				x.fail("H19/functional", "client 1: a command the second group permits was not answered PASS_ADD")
			}
			if len(r2) != 1 || replyStatus(key, r2[0], 2) != 0x10 {
				x.fail("H19/functional", "client 2: a command no rule permits was not answered FAIL")
			}
			x.obs = transcriptOf(key, r1) + transcriptOf(key, r2)
		}},
		{"H8 two connections, same user, one session authorization each", func(x *sx) {
			w := newSWorldR(e.Cfg, nil)
			w.serve()
			var r1, r2 [][]byte
			var wg vsyncrt.WaitGroup
			wg.Add(2)
			c1 := w.W.NewConn(1, srvx.Addr4(10, 0, 0, 1, 1001))
			c2 := w.W.NewConn(2, srvx.Addr4(10, 0, 0, 2, 1002))
			vsyncrt.Go(func() {
				sclient(w, c1, [][]byte{authorPkt(key, "own", 1, "service=ppp", "protocol=ip")}, &r1, true)
				wg.Done()
			})
			vsyncrt.Go(func() {
				sclient(w, c2, [][]byte{authorPkt(key, "own", 2, "service=ppp", "protocol=ip")}, &r2, true)
				wg.Done()
			})
			wg.Wait()
			w.shutdown()
			for i, r := range [][][]byte{r1, r2} {
				if len(r) != 1 || replyStatus(key, r[0], 2) != 1 {
					x.fail("H8/functional", fmt.Sprintf("client %d: session authorization not answered PASS_ADD", i+1))
				}
			}
			x.obs = transcriptOf(key, r1) + transcriptOf(key, r2)
		}},
		{"H6 cancellation concurrent with serving", func(x *sx) {
			w := newSWorldR(e.Cfg, nil)
			w.serve()
			c1 := w.W.NewConn(1, srvx.Addr4(10, 0, 0, 1, 1001))
			var wg vsyncrt.WaitGroup
			wg.Add(1)
			vsyncrt.Go(func() {
				w.L.Push(c1)
				c1.Feed(authorPkt(key, "own", 1, "service=shell", "cmd=show"))
				wg.Done()
			})
			w.cancel()
			w.L.FireDeadline()
			wg.Wait()
			c1.FireDeadline() // whatever state the connection is in, its pending read ends
			w.serveDone.Wait()
			x.obs = fmt.Sprint(c1.Closed(), w.L.Accepted)
		}},
		{"H9 cancellation racing the next request of an idle connection that holds a pending session", func(x *sx) {
			w := newSWorldR(e.Cfg, nil)
			w.serve()
			c1 := w.W.NewConn(1, srvx.Addr4(10, 0, 0, 1, 1001))
			pk := func(p rPkt, seq byte) []byte {
				typ, minor, body := p.body()
				return ref.Packet(ref.Header{Version: 0xc0 | minor, Type: typ, Seq: seq, Session: sidOf(p.Sid)}, key, body)
			}
			w.L.Push(c1)
			c1.Feed(pk(rPkt{Kind: "ascii", Sid: 0}, 1))
			vsyncrt.Quiesce() // the login waits for its user name, the connection is idle in its read
			var wg vsyncrt.WaitGroup
			wg.Add(1)
			vsyncrt.Go(func() {
				c1.Feed(pk(rPkt{Kind: "cont", Msg: "own", Sid: 0}, 3))
				c1.Feed(pk(rPkt{Kind: "ascii", User: "viagroup", Sid: 1}, 1))
				wg.Done()
			})
			w.cancel()
			w.L.FireDeadline()
			wg.Wait()
			vsyncrt.Quiesce()
			c1.FireDeadline()
			w.serveDone.Wait()
			if !c1.Closed() {
				x.fail("H9/functional", "the connection is still open after Serve returned")
			}
			x.obs = fmt.Sprint(len(c1.Log))
		}},
	}
}

// h15Handler answers every request with PASS_ADD.
type h15Handler struct{}

func (h15Handler) Handle(resp tq.Response, req tq.Request) {
	resp.Reply(tq.NewAuthorReply(tq.SetAuthorReplyStatus(tq.AuthorStatusPassAdd)))
}

// c15H3: lookups concurrent with reload(s); every lookup must observe one complete configuration.
func c15H3(x *sx, twoReloads bool) {
	lg, sink := &srvx.Logger{}, &sinkRec{}
	ctx, cancel := context.WithCancel(context.Background())
	defer cancel()
	user := config.User{Name: "u", Scopes: []string{"s"}, Commands: []config.Command{{Name: "show", Action: config.PERMIT}}}
	cfgOld := config.ServerConfig{Secrets: []config.SecretConfig{scopeCfg("s", "key-OLD", "10.0.0.0/8")}, Users: []config.User{user}}
	cfgNew := config.ServerConfig{Secrets: []config.SecretConfig{scopeCfg("s", "key-NEW", "10.0.0.0/8")}, Users: []config.User{user}, PrefixDeny: []string{"10.1.1.0/24"}}
	cfgThird := config.ServerConfig{Secrets: []config.SecretConfig{scopeCfg("s", "key-THIRD", "10.0.0.0/8")}, Users: []config.User{user}, PrefixAllow: []string{"192.168.0.0/16"}}
	feed := cfgFeed{ch: mkCfgChan(1)}
	ld := newSLoader(ctx, lg, sink, nil, feed)
	feed.ch.Send(cfgOld)
	ld.BlockUntilLoaded()
	type res struct {
		key string
		err bool
	}
	var g1, g2 res
	var wg vsyncrt.WaitGroup
	wg.Add(3)
	get := func(r *res) {
		s, _, err := ld.Get(context.Background(), srvx.Addr4(10, 1, 1, 7, 99))
		r.key, r.err = string(s), err != nil
		wg.Done()
	}
	vsyncrt.Go(func() { get(&g1) })
	if twoReloads {
		vsyncrt.Go(func() { feed.ch.Send(cfgThird); wg.Done() })
	} else {
		vsyncrt.Go(func() { get(&g2) })
	}
	vsyncrt.Go(func() { feed.ch.Send(cfgNew); wg.Done() })
	wg.Wait()
	// when the reloads and the lookups are over, the configuration in force is a new one: the address is refused.
	// "Over" means the loader has APPLIED what was delivered: a Send on the one-slot feed returns when the value sits in
	// the channel, which the update loop may not have looked at yet (a lookup asked at that moment is rightly answered
	// from the old configuration). Quiesce waits until the loop has nothing left to take.
	vsyncrt.Quiesce()
	if s, _, err := ld.Get(context.Background(), srvx.Addr4(10, 1, 1, 7, 99)); err == nil {
		x.fail("H3/stale-after-reload", fmt.Sprintf("after the reload(s) completed a lookup for an address the new configuration refuses was served with secret %q", s))
	}
	// old: served with key-OLD; new: refused by prefix_deny; third: refused by prefix_allow.
	// a mixture (new providers under the old filters) would be served with key-NEW or key-THIRD.
	for i, g := range []res{g1, g2} {
		if i == 1 && twoReloads {
			break
		}
		ok := (g.key == "key-OLD" && !g.err) || (g.err && g.key == "")
		if !ok {
			x.fail("H3/mixed-configuration", fmt.Sprintf("lookup %d observed a mixture of two configurations: secret %q err=%v (old config serves key-OLD, the new ones refuse the address)", i+1, g.key, g.err))
		}
	}
	x.obs = fmt.Sprint(g1, g2)
}

// c15H4: a consumer reads a published configuration while the same loader object loads the next document.
func c15H4(x *sx, format string) {
	docs := c16DocsForSched()
	var l interface {
		Unmarshal(b []byte) error
		Config() cfgChan
	}
	if format == "yaml" {
		l = yamlloader.New()
	} else {
		l = jsonloader.New()
	}
	text := func(i int) []byte {
		b, err := json.Marshal(docs[i])
		if err != nil {
			panic(err)
		}
		return b // JSON is valid YAML
	}
	if err := l.Unmarshal(text(0)); err != nil {
		x.fail("H4/load", err.Error())
		return
	}
	first := l.Config().Recv()
	snap, _ := json.Marshal(first)
	var wg vsyncrt.WaitGroup
	wg.Add(2)
	var seen1, seen2 []byte
	vsyncrt.Go(func() {
		// the consumer walks the whole published value, twice
		seen1, _ = json.Marshal(first)
		vsyncrt.P()
		seen2, _ = json.Marshal(first)
		wg.Done()
	})
	vsyncrt.Go(func() {
		l.Unmarshal(text(1))
		wg.Done()
	})
	wg.Wait()
	second := l.Config().Recv()
	after, _ := json.Marshal(first)
	if string(seen1) != string(snap) || string(seen2) != string(snap) || string(after) != string(snap) {
		x.fail("H4/published-modified", format+": a configuration that was already published changed while the next document was loaded")
	}
	if !reflect.DeepEqual(second, docs[1]) {
		// (C16 owns equality with a fresh load; here only a sanity check that the second load happened)
		_ = second
	}
	x.obs = fmt.Sprint(len(seen1), len(after))
}

// c15H10: the production wiring - loader.Loader consumes from the file loader object itself (through the fsnotify watcher,
// which only forwards Config()), so its update loop calls Config() on the object while the watcher's goroutine loads the
// next document into it; a lookup runs at the same time.
func c15H10(x *sx, format string) {
	docs := c16DocsForSched()
	var l interface {
		Unmarshal(b []byte) error
		Config() cfgChan
	}
	if format == "yaml" {
		l = yamlloader.New()
	} else {
		l = jsonloader.New()
	}
	text := func(i int) []byte {
		b, err := json.Marshal(docs[i])
		if err != nil {
			panic(err)
		}
		return b // JSON is valid YAML
	}
	if err := l.Unmarshal(text(0)); err != nil {
		x.fail("H10/load", err.Error())
		return
	}
	lg, sink := &srvx.Logger{}, &sinkRec{}
	ctx, cancel := context.WithCancel(context.Background())
	defer cancel()
	ld := newSLoader(ctx, lg, sink, nil, l)
	ld.BlockUntilLoaded()
	var wg vsyncrt.WaitGroup
	wg.Add(2)
	var secret []byte
	var gerr error
	vsyncrt.Go(func() {
		if err := l.Unmarshal(text(1)); err != nil {
			x.fail("H10/load", err.Error())
		}
		wg.Done()
	})
	vsyncrt.Go(func() {
		secret, _, gerr = ld.Get(context.Background(), srvx.Addr4(10, 1, 1, 7, 99))
		wg.Done()
	})
	wg.Wait()
	if gerr != nil || string(secret) != "k1" {
		x.fail("H10/functional", fmt.Sprintf("lookup answered secret %q err %v; both documents serve 10.0.0.0/8 with k1", secret, gerr))
	}
	x.obs = fmt.Sprint(len(secret))
}

func c16DocsForSched() []config.ServerConfig {
	u1 := config.User{Name: "admin", Scopes: []string{"s1"}, Commands: []config.Command{{Name: "configure", Match: []string{"terminal"}, Action: config.PERMIT}},
		Authenticator: &config.Authenticator{Type: config.BCRYPT, Options: map[string]string{"hash": "aa", "key": "k"}}}
	u2 := config.User{Name: "guest", Scopes: []string{"s1"}, Commands: []config.Command{{Name: "show", Match: []string{"version"}, Action: config.PERMIT}}}
	s1 := scopeCfg("s1", "k1", "10.0.0.0/8")
	return []config.ServerConfig{
		{Secrets: []config.SecretConfig{s1}, Users: []config.User{u1, u2}, PrefixDeny: []string{"10.9.0.0/16"}},
		{Secrets: []config.SecretConfig{s1}, Users: []config.User{u2}},
	}
}

// ---------------- C17 harnesses ----------------

type c17Handler struct {
	w *vsyncrt.World
	// pending: every reply registers a continuation, so the session stays open (mid-exchange connection)
	pending bool
}

func (h c17Handler) Handle(resp tq.Response, req tq.Request) {
	h.w.Mark("handler-enter")
	if h.pending {
		resp.Next(h)
	}
	resp.Reply(tq.NewAuthorReply(tq.SetAuthorReplyStatus(tq.AuthorStatusPassAdd)))
	h.w.Mark("handler-exit")
}

var c17Key = []byte("c17-key")

// c17Scripts: all environment scripts of length <= n over {C connect, F full packet, G full packet and the first octets of the next one in ONE segment,
// P partial packet, D fire read deadline, X cancel, A fire accept deadline}
func c17Scripts(n int) [][]string {
	var out [][]string
	var rec func(cur []string, conns int, cancelled bool)
	rec = func(cur []string, conns int, cancelled bool) {
		if len(cur) > 0 {
			out = append(out, append([]string{}, cur...))
		}
		if len(cur) == n {
			return
		}
		if conns < 2 {
			rec(append(cur, "C"), conns+1, cancelled)
		}
		for i := 0; i < conns; i++ {
			for _, k := range []string{"F", "P", "D", "G"} {
				rec(append(cur, fmt.Sprintf("%s%d", k, i)), conns, cancelled)
			}
		}
		if !cancelled {
			rec(append(cur, "X"), conns, true)
		}
		rec(append(cur, "A"), conns, cancelled)
	}
	rec(nil, 0, false)
	return out
}

// c17ProxyLine is the HAProxy v1 line the reference server strips in front of every packet when built with SetUseProxy
var c17ProxyLine = []byte("PROXY TCP4 192.0.2.1 192.0.2.2 1000 49\r\n\x00")

func c17Body(script []string, pending, patient bool, proxy ...bool) func(x *sx) {
	useProxy := len(proxy) > 0 && proxy[0]
	return func(x *sx) {
		world := vsyncrt.NewWorld()
		w := newSWorldL(c17Key, nil)
		w.W = world
		w.L = world.NewListener()
		w.srv = tq.NewServer(w.lg, c17Secret{srvx.FixedSecret{Key: c17Key, H: c17Handler{w: world, pending: pending}}}, tq.SetUseProxy(useProxy))
		w.serve()
		var conns []*vsyncrt.Conn
		full := authorPkt(c17Key, "u", 7, "service=shell", "cmd=show")
		partial := full[:7]
		if useProxy {
			partial = c17ProxyLine[:9] // a proxy line that never gets its terminator
		}
		sess := uint32(100)
		cancelledAt := -1 // connections accepted when the context was cancelled
		trickled := map[byte]int{}
		// waitDeadline[i]: the read deadline armed when the server began to wait for connection i's current packet
		waitDeadline := map[int]time.Time{}
		mark := map[int]int{}
		noteWait := func() {
			for i, c := range conns {
				if _, ok := waitDeadline[i]; ok {
					continue
				}
				for _, e := range c.Log {
					if e.Seq > mark[i] && (e.Kind == "rdeadline" || e.Kind == "deadline") {
						waitDeadline[i] = e.T
						break
					}
				}
			}
		}
		for _, ev := range script {
			if patient && (ev[0] == 'C' || ev[0] == 'F' || ev[0] == 'G') {
				// a new wait begins after this event: forget the previous one
				i := len(conns)
				if ev[0] == 'F' || ev[0] == 'G' {
					i = int(ev[1] - '0')
				}
				delete(waitDeadline, i)
				mark[i] = world.Seq()
			}
			switch ev[0] {
			case 'C':
				c := world.NewConn(len(conns), srvx.Addr4(10, 0, 0, byte(1+len(conns)), 1700))
				conns = append(conns, c)
				w.L.Push(c)
			case 'U':
				// a connection from a remote the secret store does not know: it is accepted, refused and closed
				c := world.NewConn(len(conns), srvx.Addr4(172, 16, 0, byte(1+len(conns)), 1700))
				conns = append(conns, c)
				w.L.Push(c)
			case 'F', 'G':
				sess++
				p := append([]byte{}, full...)
				c := conns[ev[1]-'0']
				// a fresh session id per packet so that it is never a sequence violation
				hdr := ref.DecodeHeader(p)
				body := ref.Obfuscate(hdr, c17Key, p[12:])
				hdr.Session = sess
				seg := ref.Packet(hdr, c17Key, body)
				if useProxy {
					seg = append(append([]byte{}, c17ProxyLine...), seg...)
				}
				if ev[0] == 'G' {
					// the segment that carries the packet also carries the beginning of a packet that is never completed: the
					// server answers, and then waits for the rest with those octets already in its buffer
					seg = append(seg, partial...)
				}
				c.Feed(seg)
			case 'P':
				conns[ev[1]-'0'].Feed(partial)
			case 'T':
				// the client sends one more byte of a packet ten seconds after its previous one; deadlines that have
				// been reached by then expire first
				vsyncrt.Advance(10 * 1e9)
				for _, c := range conns {
					c.ExpireIfDue()
				}
				c := conns[ev[1]-'0']
				if !c.Closed() {
					c.Feed(partial[trickled[ev[1]-'0']%len(partial) : trickled[ev[1]-'0']%len(partial)+1])
					trickled[ev[1]-'0']++
				}
			case 'D':
				vsyncrt.Advance(20 * 1e9)
				conns[ev[1]-'0'].FireDeadline()
			case 'X':
				w.cancel()
				if cancelledAt < 0 {
					cancelledAt = w.L.Accepted
				}
			case 'R':
				// the read deadline of every connection that is open reaches its time
				vsyncrt.Advance(20 * 1e9)
				for _, c := range conns {
					if !c.Closed() {
						c.FireDeadline()
					}
				}
			case 'L':
				w.L.Close() // the embedding program closes the listener itself (to stop accepting at once)
			case 'A':
				w.L.FireDeadline()
			}
			if patient {
				vsyncrt.Quiesce() // the server digests this event completely before the next one
				noteWait()
			}
		}
		// a connection that has not delivered a complete packet by the deadline that was armed when the server began to
		// wait for it is closed, however the client paces its bytes (judged when every event has been digested)
		clockDriven := true // D fires one connection's deadline whatever the clock says; only T lets time pass for everybody
		for _, ev := range script {
			if ev[0] == 'D' {
				clockDriven = false
			}
		}
		if patient && clockDriven {
			for i, c := range conns {
				if d0, ok := waitDeadline[i]; ok && !d0.IsZero() && vsyncrt.Now().After(d0) && !c.Closed() {
					x.fail("C17/kept-open-past-deadline", fmt.Sprintf("connection %d: the server began to wait for a packet with the read deadline %s armed, no complete packet arrived, the clock reads %s and the connection is still open",
						i, d0.Format("15:04:05"), vsyncrt.Now().Format("15:04:05")))
				}
			}
		}
		// steady arrivals: the context was cancelled, every blocked read has reached its deadline (R), and the only thing that
		// has not happened is an accept timeout, because new connections kept arriving: Serve has returned all the same
		if patient && len(script) > 0 && script[len(script)-1] == "R" && cancelledAt >= 0 {
			returned := false
			for _, e := range world.Events {
				if e.Kind == "serve-return" {
					returned = true
				}
			}
			if !returned {
				x.fail("C17/no-return-under-steady-arrivals", fmt.Sprintf("the context is cancelled and every blocked read has reached its deadline, but Serve has not returned: it accepted %d connections after the cancellation and waits for the next one", w.L.Accepted-cancelledAt))
			}
		}
		// fair closing phase: cancel, then every armed deadline fires until Serve returns
		w.cancel()
		vsyncrt.Advance(20 * 1e9)
		w.L.FireDeadline()
		for _, c := range conns {
			c.FireDeadline()
		}
		w.serveDone.Wait() // a state with no enabled thread before this returns is reported as a deadlock
		// ---- oracles over the event log ----
		retSeq := 0
		for _, e := range world.Events {
			if e.Kind == "serve-return" {
				retSeq = e.Seq
			}
		}
		if retSeq == 0 {
			x.fail("C17/no-return", "Serve did not return")
			return
		}
		if !w.L.IsClosed() || w.L.CloseSeq > retSeq {
			x.fail("C17/listener-open", "Serve returned before the listener was closed")
		}
		for _, e := range world.Events {
			if (e.Kind == "handler-enter" || e.Kind == "handler-exit") && e.Seq > retSeq {
				x.fail("C17/handler-after-return", "a handler was running after Serve returned")
			}
		}
		accepted := w.L.Accepted
		// the accept loop looks at the context before every Accept: a call that was already waiting may still return one
		// connection after the cancellation, every further one stays in the backlog
		_ = cancelledAt
		for i, c := range conns {
			if i < accepted && !c.Closed() {
				x.fail("C17/conn-open-after-return", fmt.Sprintf("connection %d was accepted and is still open after Serve returned", i))
			}
			timedOut := false
			for _, e := range c.Log {
				if e.Seq > retSeq && (e.Kind == "write" || e.Kind == "read" || e.Kind == "close" || e.Kind == "readpark") {
					x.fail("C17/activity-after-return", fmt.Sprintf("connection %d: %s after Serve returned", i, e.Kind))
				}
				if (e.Kind == "read" || e.Kind == "readpark") && !e.Armed {
					x.fail("C17/read-without-deadline", fmt.Sprintf("connection %d: a read was issued without a finite read deadline in the future being armed", i))
				}
				if timedOut && (e.Kind == "read" || e.Kind == "readpark" || e.Kind == "write") {
					x.fail("C17/read-after-timeout", fmt.Sprintf("connection %d: %s after its read deadline expired", i, e.Kind))
				}
				if e.Kind == "read" && strings.Contains(e.Err, "timeout") {
					timedOut = true
				}
			}
			if timedOut && !c.Closed() {
				x.fail("C17/not-reaped", fmt.Sprintf("connection %d: its read deadline expired but it was not closed", i))
			}
		}
		x.obs = fmt.Sprint(accepted, len(world.Events))
	}
}

// c17Secret knows every remote except 172.16.0.0/12; like a store that has to ask somebody, it gives up when the context ends.
type c17Secret struct{ srvx.FixedSecret }

func (f c17Secret) Get(ctx context.Context, remote net.Addr) ([]byte, tq.Handler, error) {
	if a, ok := remote.(*net.TCPAddr); ok && a.IP.To4() != nil && a.IP.To4()[0] == 172 {
		if err := ctx.Err(); err != nil {
			return nil, nil, err
		}
		return nil, nil, errors.New("unknown remote")
	}
	return f.FixedSecret.Get(ctx, remote)
}

func c17Jobs(quick bool) []sjob {
	n := 4
	if quick {
		n = 3
	}
	var jobs []sjob
	for _, s := range c17Scripts(n) {
		s := s
		jobs = append(jobs, sjob{"script " + strings.Join(s, " "), c17Body(s, false, false)})
		jobs = append(jobs, sjob{"script (each event digested before the next) " + strings.Join(s, " "), c17Body(s, false, true)})
		// the same script against a handler that leaves every session waiting for a continuation, when the script
		// lets a deadline fire after a full packet
		hasF, dAfterF := false, false
		for _, ev := range s {
			if ev[0] == 'F' || ev[0] == 'G' {
				hasF = true
			}
			if ev[0] == 'D' && hasF {
				dAfterF = true
			}
		}
		if dAfterF {
			jobs = append(jobs, sjob{"script (sessions left pending, each event digested) " + strings.Join(s, " "), c17Body(s, true, true)})
			jobs = append(jobs, sjob{"script (sessions left pending) " + strings.Join(s, " "), c17Body(s, true, false)})
		}
	}
	// pacing: a client that sends one byte every ten seconds and never completes a packet - from the start, after a complete
	// packet, around a cancellation, on two connections, in proxy mode (T = ten seconds pass, then one more byte)
	for _, s := range [][]string{{"C", "T0", "T0"}, {"C", "T0", "T0", "T0", "T0"}, {"C", "F0", "T0", "T0", "T0"}, {"C", "T0", "X", "T0", "T0"}, {"C", "C", "T0", "T1", "T0", "T1"}, {"C", "P0", "T0", "T0"}} {
		s := s
		jobs = append(jobs, sjob{"pacing, script (each event digested before the next) " + strings.Join(s, " "), c17Body(s, false, true)})
		jobs = append(jobs, sjob{"pacing, sessions left pending, script (each event digested before the next) " + strings.Join(s, " "), c17Body(s, true, true)})
		jobs = append(jobs, sjob{"pacing, proxy mode, script (each event digested before the next) " + strings.Join(s, " "), c17Body(s, false, true, true)})
	}
	// the accept loop has already seen the cancellation (X, A) when a connection's next packet arrives and is handled
	if quick {
		for _, s := range [][]string{{"C", "X", "A", "F0"}, {"C", "X", "A", "P0"}, {"C", "C", "X", "A", "F1"}, {"C", "F0", "X", "A", "F0"}} {
			s := s
			jobs = append(jobs, sjob{"cancellation seen by the accept loop first, script " + strings.Join(s, " "), c17Body(s, false, false)})
			jobs = append(jobs, sjob{"cancellation seen by the accept loop first, script (each event digested before the next) " + strings.Join(s, " "), c17Body(s, false, true)})
		}
	}
	// steady arrivals after the cancellation: new connections keep the accept call from ever timing out
	for _, s := range [][]string{{"C", "X", "C", "R", "C", "R"}, {"X", "C", "R", "C", "R", "C", "R"}, {"C", "F0", "X", "C", "C", "R", "C", "R"}} {
		s := s
		jobs = append(jobs, sjob{"steady arrivals, script (each event digested before the next) " + strings.Join(s, " "), c17Body(s, false, true)})
		jobs = append(jobs, sjob{"steady arrivals, sessions left pending, script (each event digested before the next) " + strings.Join(s, " "), c17Body(s, true, true)})
	}
	// connections from remotes the secret store refuses (U), before, around and after the cancellation: each is closed, and
	// none is open when Serve has returned
	for _, s := range [][]string{{"U"}, {"C", "U"}, {"X", "U"}, {"C", "X", "U"}, {"U", "X"}, {"X", "U", "U"}, {"C", "F0", "X", "U"}, {"U", "C", "X", "U", "R"}} {
		s := s
		jobs = append(jobs, sjob{"refused remotes, script " + strings.Join(s, " "), c17Body(s, false, false)})
		jobs = append(jobs, sjob{"refused remotes, script (each event digested before the next) " + strings.Join(s, " "), c17Body(s, false, true)})
	}
	// the embedding program closes the listener itself (L) while connections are idle, mid-packet or mid-exchange, before
	// or after it cancels: Serve still returns only when every connection goroutine has finished
	for _, s := range [][]string{{"C", "L"}, {"C", "P0", "L"}, {"C", "F0", "L"}, {"C", "L", "X"}, {"C", "X", "L"}, {"C", "C", "P1", "L"}, {"L", "C"}, {"C", "F0", "P0", "L", "X"}} {
		s := s
		jobs = append(jobs, sjob{"listener closed by the caller, script " + strings.Join(s, " "), c17Body(s, false, false)})
		jobs = append(jobs, sjob{"listener closed by the caller, script (each event digested before the next) " + strings.Join(s, " "), c17Body(s, false, true)})
		jobs = append(jobs, sjob{"listener closed by the caller, sessions left pending, script (each event digested before the next) " + strings.Join(s, " "), c17Body(s, true, true)})
	}
	// the same server built with SetUseProxy: a proxy line precedes every packet, P is a proxy line that is never terminated
	for _, s := range c17Scripts(n - 1) {
		s := s
		jobs = append(jobs, sjob{"proxy mode, script " + strings.Join(s, " "), c17Body(s, false, false, true)})
		jobs = append(jobs, sjob{"proxy mode, script (each event digested before the next) " + strings.Join(s, " "), c17Body(s, false, true, true)})
	}
	return jobs
}

// ---------------- C09 (concurrent connections) ----------------

func c09Jobs() []sjob {
	e := newREnv(defaultSecrets(), "")
	key := []byte(e.Sec.Key1)
	key2 := []byte(e.Sec.Key2)
	scripts := [][]rPkt{
		{{Kind: "ascii", User: ""}, {Kind: "cont", Msg: "own"}},
		{{Kind: "ascii", User: "viagroup"}, {Kind: "cont", Msg: "x", Abort: true}},
		{{Kind: "author", User: "own", Args: []string{"service=shell", "cmd=show"}}},
		{{Kind: "ascii", User: ""}, {Kind: "cont", Msg: "nobody"}},
		{{Kind: "acct", User: "own", Flags: 2}},
		// scripts 5 and 6 run on a connection of the OTHER scope (other key, other users)
		{{Kind: "pap", User: "shared", Pw: e.Sec.Shared2}},
		{{Kind: "ascii", User: ""}, {Kind: "cont", Msg: "elsewhere"}},
		// scripts 7 and 8 (scope 1 again): the same user logs in with the right and with a wrong password at the same time
		{{Kind: "pap", User: "own", Pw: e.Sec.Own}},
		{{Kind: "pap", User: "own", Pw: "wrong"}},
	}
	const firstScope2, firstSameUser = 5, 7
	keyOf := func(si int) []byte {
		if si >= firstScope2 && si < firstSameUser {
			return key2
		}
		return key
	}
	wireK := func(s []rPkt, k []byte) [][]byte {
		var out [][]byte
		seq := byte(1)
		for _, p := range s {
			typ, minor, body := p.body()
			out = append(out, ref.Packet(ref.Header{Version: 0xc0 | minor, Type: typ, Seq: seq, Session: 0x0909}, k, body)) // same session id on every connection
			seq += 2
		}
		return out
	}
	wire := func(s []rPkt) [][]byte { return wireK(s, key) }
	run := func(x *sx, idx []int) []string {
		w := newSWorldR(e.Cfg, nil)
		w.serve()
		reps := make([][][]byte, len(idx))
		var wg vsyncrt.WaitGroup
		wg.Add(len(idx))
		for i, si := range idx {
			i, si := i, si
			addr := srvx.Addr4(10, 0, 0, byte(1+i), 1900)
			if si >= firstScope2 && si < firstSameUser {
				addr = srvx.Addr4(192, 168, 0, byte(1+i), 1900)
			}
			c := w.W.NewConn(i, addr)
			vsyncrt.Go(func() { sclient(w, c, wireK(scripts[si], keyOf(si)), &reps[i], true); wg.Done() })
		}
		wg.Wait()
		w.shutdown()
		var out []string
		for i, si := range idx {
			out = append(out, transcriptOf(keyOf(si), reps[i]))
		}
		return out
	}
	// transcripts of each script alone (a controlled execution with no other client)
	alone := map[int]string{}
	for i := range scripts {
		i := i
		vsyncrt.Run(nil, 0, false, func() { alone[i] = run(&sx{}, []int{i})[0] })
	}
	var jobs []sjob
	for a := range scripts {
		for b := a; b < len(scripts); b++ {
			a, b := a, b
			if a >= firstScope2 && a < firstSameUser && b > a {
				continue // one pair of the other scope with itself is enough
			}
			if (a >= firstSameUser || b >= firstSameUser) && !(a == firstSameUser && b == firstSameUser+1) {
				continue // the two logins of one user are paired with each other only
			}
			what := "sharing a session id"
			if b >= firstScope2 && b < firstSameUser && a < firstScope2 {
				what = "of two different scopes, sharing a session id"
			}
			jobs = append(jobs, sjob{fmt.Sprintf("scripts %d and %d on two concurrent connections %s", a, b, what), func(x *sx) {
				got := run(x, []int{a, b})
				if got[0] != alone[a] {
					x.fail("C09/transcript-differs", fmt.Sprintf("script %d: transcript under concurrency %s differs from its transcript alone %s", a, got[0], alone[a]))
				}
				if got[1] != alone[b] {
					x.fail("C09/transcript-differs", fmt.Sprintf("script %d: transcript under concurrency %s differs from its transcript alone %s", b, got[1], alone[b]))
				}
				x.obs = "ok"
			}})
		}
	}
	// sequential plane: a connection abandons a login half-way and closes; a NEW connection then runs a script under the
	// same session id. Nothing of the dead connection may reach it.
	pending := [][]rPkt{{{Kind: "ascii", User: ""}}, {{Kind: "ascii", User: ""}, {Kind: "cont", Msg: "own"}}, {{Kind: "ascii", User: "viagroup"}}}
	for pi, pre := range pending {
		for b := range scripts[:firstScope2] {
			pi, pre, b := pi, pre, b
			jobs = append(jobs, sjob{fmt.Sprintf("abandoned login %d on a closed connection, then script %d on a new connection with the same session id", pi, b), func(x *sx) {
				w := newSWorldR(e.Cfg, nil)
				w.serve()
				var r0, r1 [][]byte
				c0 := w.W.NewConn(0, srvx.Addr4(10, 0, 0, 1, 1900))
				sclient(w, c0, wire(pre), &r0, true)
				for !c0.Closed() {
					c0.Await(1 << 30)
				}
				c1 := w.W.NewConn(1, srvx.Addr4(10, 0, 0, 2, 1900))
				sclient(w, c1, wire(scripts[b]), &r1, true)
				w.shutdown()
				if got := transcriptOf(key, r1); got != alone[b] {
					x.fail("C09/transcript-differs-after-closed-connection", fmt.Sprintf("script %d after an abandoned login on another (closed) connection: transcript %s differs from its transcript alone %s", b, got, alone[b]))
				}
				x.obs = "ok"
			}})
		}
	}
	return jobs
}

// ---------------- C08 (pipelined packets) ----------------

type c08sState struct {
	mu   vsyncrt.Mutex
	log  []string
	next int
}

// c08sHandler records which handler instance saw which packet; sessions with an even id get a reply that registers a
// continuation (a fresh instance), sessions with an odd id a reply that ends the session.
type c08sHandler struct {
	st *c08sState
	id int
}

func (h c08sHandler) Handle(resp tq.Response, req tq.Request) {
	st := h.st
	st.mu.Lock()
	st.log = append(st.log, fmt.Sprintf("h%d<-%x:%d", h.id, uint32(req.Header.SessionID), req.Header.SeqNo))
	cont := uint32(req.Header.SessionID)%2 == 0
	nid := 0
	if cont {
		nid = st.next
		st.next++
	}
	st.mu.Unlock()
	if cont {
		resp.Next(c08sHandler{st: st, id: nid})
	}
	resp.Reply(tq.NewAuthorReply(tq.SetAuthorReplyStatus(tq.AuthorStatusPassAdd)))
}

// c08SchedJobs: the client PIPELINES its packets - everything is on the wire before the server has answered anything - on a
// plain and on a single-connect connection. Whatever the server does internally, the packets must be judged one after the
// other exactly as the connection model judges them: same handler instances in the same order, same replies, nothing after
// the first rejected packet.
func c08SchedJobs(quick bool) []sjob {
	key := []byte("c08-key")
	type pk struct {
		sid uint32
		seq byte
	}
	alpha := []pk{{0x0808, 1}, {0x0808, 3}, {0x0808, 2}, {0x0809, 1}, {0x0809, 3}, {0x0808, 5}}
	var scripts [][]pk
	var rec func(cur []pk)
	rec = func(cur []pk) {
		if len(cur) >= 2 {
			scripts = append(scripts, append([]pk{}, cur...))
		}
		if len(cur) == 3 {
			return
		}
		for _, p := range alpha {
			rec(append(cur, p))
		}
	}
	rec(nil)
	var jobs []sjob
	for _, fl := range []byte{0, 4, 0x80, 0x84} {
		for _, sc := range scripts {
			fl, sc := fl, sc
			// bit 0x80 stands for: all packets coalesced into ONE segment (scripts of two packets; three with single-connect)
			oneSegment := fl&0x80 != 0
			if oneSegment {
				fl &^= 0x80
				if len(sc) != 2 && !(fl == 4 && len(sc) == 3 && sc[0].seq == 1 && !quick) {
					continue
				}
			}
			if quick && fl == 0 && len(sc) == 3 {
				continue
			}
			name := fmt.Sprintf("pipelined packets, flags %#x:", fl)
			if oneSegment {
				name = fmt.Sprintf("pipelined packets in one segment, flags %#x:", fl)
			}
			for _, p := range sc {
				name += fmt.Sprintf(" %x:%d", p.sid, p.seq)
			}
			jobs = append(jobs, sjob{name, func(x *sx) {
				st := &c08sState{next: 1}
				w := newSWorldL(key, c08sHandler{st: st, id: 0})
				w.serve()
				c := w.W.NewConn(0, srvx.Addr4(10, 0, 0, 1, 1808))
				w.L.Push(c)
				model := ref.NewConnModel()
				var wantLog, wantOut []string
				var segment []byte
				for _, p := range sc {
					m := ref.NewMsg()
					m.N["authen_method"], m.N["priv_lvl"], m.N["authen_type"], m.N["authen_service"] = 6, 1, 1, 1
					m.S["user"] = []byte("u")
					m.Args = [][]byte{[]byte("service=shell"), []byte("cmd=show")}
					body, _ := ref.AuthorRequest.Encode(m)
					h := ref.Header{Version: 0xc0, Type: 2, Seq: p.seq, Flags: fl, Session: p.sid}
					if oneSegment {
						segment = append(segment, ref.Packet(h, key, body)...)
					} else {
						c.Feed(ref.Packet(h, key, body))
					}
					if model.Open {
						h.Length = uint32(len(body))
						v := model.Step(h, ref.Action{Reply: true, Next: p.sid%2 == 0})
						if v.Accept {
							wantLog = append(wantLog, fmt.Sprintf("h%d<-%x:%d", v.Handler, p.sid, p.seq))
							if v.ReplySeq > 0 {
								wantOut = append(wantOut, fmt.Sprintf("%x:%d", p.sid, v.ReplySeq))
							}
						}
					}
				}
				if oneSegment {
					c.Feed(segment)
				}
				vsyncrt.Quiesce()
				if !c.Closed() {
					c.FeedEOF()
				}
				w.shutdown()
				out, _ := c.Await(0)
				pks, rest := srvx.ParseStream(out)
				var gotOut []string
				for _, q := range pks {
					gotOut = append(gotOut, fmt.Sprintf("%x:%d", q.H.Session, q.H.Seq))
				}
				st.mu.Lock()
				gotLog := append([]string{}, st.log...)
				st.mu.Unlock()
				if fmt.Sprint(gotLog) != fmt.Sprint(wantLog) {
					x.fail("C08/pipelined-dispatch", fmt.Sprintf("handler invocations %v, the connection model judging the packets one after the other says %v", gotLog, wantLog))
				}
				if fmt.Sprint(gotOut) != fmt.Sprint(wantOut) || len(rest) != 0 {
					x.fail("C08/pipelined-replies", fmt.Sprintf("replies %v (+%d stray bytes), the model says %v", gotOut, len(rest), wantOut))
				}
				x.obs = fmt.Sprint(gotLog)
			}})
		}
	}
	return jobs
}

// ---------------- C12 (concurrent accounting) ----------------

func c12SchedJobs() []sjob {
	cfg := c12Config()
	key := []byte("acct-key")
	mk := func(user, port string, sid uint32, args ...string) (*ref.Msg, []byte) {
		m := ref.NewMsg()
		m.N["flags"], m.N["authen_method"], m.N["priv_lvl"], m.N["authen_type"], m.N["authen_service"] = 2, 6, 1, 1, 1
		m.S["user"], m.S["port"], m.S["rem_addr"] = []byte(user), []byte(port), []byte("10.9.9.9")
		for _, a := range args {
			m.Args = append(m.Args, []byte(a))
		}
		body, _ := ref.AcctRequest.Encode(m)
		return m, ref.Packet(ref.Header{Version: 0xc0, Type: 3, Seq: 1, Session: sid}, key, body)
	}
	body := func(sameConn bool) func(x *sx) {
		return func(x *sx) {
			w := newSWorldR(cfg, nil)
			w.serve()
			m1, p1 := mk("acct", "tty1", 1, "task_id=1", "cmd=show running-config <cr>")
			m2, p2 := mk("viagroup", "tty22", 2, "task_id=22", "cmd=reload in 5 <&>")
			var r1, r2 [][]byte
			var wg vsyncrt.WaitGroup
			wg.Add(2)
			c1 := w.W.NewConn(1, srvx.Addr4(10, 0, 0, 1, 1201))
			c2 := w.W.NewConn(2, srvx.Addr4(10, 0, 0, 2, 1202))
			vsyncrt.Go(func() { sclient(w, c1, [][]byte{p1}, &r1, true); wg.Done() })
			vsyncrt.Go(func() { sclient(w, c2, [][]byte{p2}, &r2, true); wg.Done() })
			wg.Wait()
			w.shutdown()
			calls := w.sink.take()
			for i, pr := range []struct {
				m *ref.Msg
				r [][]byte
			}{{m1, r1}, {m2, r2}} {
				if len(pr.r) != 1 || replyStatus(key, pr.r[0], 3) != 1 {
					x.fail("C12/concurrent-not-acknowledged", fmt.Sprintf("request %d was not answered SUCCESS", i+1))
					continue
				}
				n := 0
				for _, cl := range calls {
					if checkRecord(cl.Rendered(), pr.m) == "" {
						n++
					}
				}
				if n != 1 {
					var lines []string
					for _, cl := range calls {
						lines = append(lines, trunc(cl.Rendered(), 160))
					}
					x.fail("C12/concurrent-record", fmt.Sprintf("request %d was acknowledged but %d sink records say what it sent; sink has %q", i+1, n, lines))
				}
			}
			if len(calls) != 2 {
				x.fail("C12/concurrent-record-count", fmt.Sprintf("%d sink records for 2 acknowledged requests", len(calls)))
			}
			x.obs = fmt.Sprint(len(calls))
		}
	}
	return []sjob{{"two connections send accounting records concurrently", body(false)}}
}

// ---------------- C03 (obfuscation of concurrent connections) ----------------

type c03SchedHandler struct{ reply []byte }

func (h c03SchedHandler) Handle(resp tq.Response, req tq.Request) { resp.Reply(rawBody{h.reply}) }

func c03SchedJobs() []sjob {
	key := []byte("c03-concurrent-key")
	return []sjob{{"two connections exchange obfuscated packets concurrently", func(x *sx) {
		clearReply := replyShaped(40)
		w := newSWorldL(key, c03SchedHandler{clearReply})
		w.serve()
		var r1, r2 [][]byte
		var wg vsyncrt.WaitGroup
		wg.Add(2)
		h1 := ref.Header{Version: 0xc0, Type: 1, Seq: 1, Session: 0x03030301}
		h2 := ref.Header{Version: 0xc1, Type: 1, Seq: 3, Session: 0x0303ff02}
		c1 := w.W.NewConn(1, srvx.Addr4(10, 0, 0, 1, 1301))
		c2 := w.W.NewConn(2, srvx.Addr4(10, 0, 0, 2, 1302))
		vsyncrt.Go(func() { sclient(w, c1, [][]byte{ref.Packet(h1, key, replyShaped(33))}, &r1, true); wg.Done() })
		vsyncrt.Go(func() { sclient(w, c2, [][]byte{ref.Packet(h2, key, replyShaped(47))}, &r2, true); wg.Done() })
		wg.Wait()
		w.shutdown()
		for i, pr := range []struct {
			h ref.Header
			r [][]byte
		}{{h1, r1}, {h2, r2}} {
			rh := pr.h
			rh.Seq++
			want := ref.Packet(rh, key, clearReply)
			if len(pr.r) != 1 || string(pr.r[0]) != string(want) {
				x.fail("C03/concurrent-wire", fmt.Sprintf("connection %d: the reply on the wire is not header || cleartext XOR the RFC pad while another connection is obfuscating concurrently", i+1))
			}
		}
		x.obs = "ok"
	}}}
}

// ---------------- C13 (scope order under whatever concurrency the loader uses) ----------------

func c13SchedJobs() []sjob {
	mk := func(order []int) config.ServerConfig {
		cs := c13Case{Deny: []string{"10.1.2.0/24"}}
		for _, i := range order {
			cs.Scopes = append(cs.Scopes, c13Scopes[i])
		}
		return c13Config(cs)
	}
	var jobs []sjob
	for _, order := range [][]int{{0, 1, 2}, {1, 0, 3}, {4, 0, 1}, {3, 2, 0}} {
		order := order
		jobs = append(jobs, sjob{fmt.Sprintf("overlapping scopes in configuration order %v: lookups bind to the first matching one", order), func(x *sx) {
			lg, sink := &srvx.Logger{}, &sinkRec{}
			ctx, cancel := context.WithCancel(context.Background())
			defer cancel()
			feed := cfgFeed{ch: mkCfgChan(1)}
			ld := newSLoader(ctx, lg, sink, nil, feed)
			feed.ch.Send(mk(order))
			ld.BlockUntilLoaded()
			var scopes []ref.Scope
			for _, i := range order {
				sc := c13Scopes[i]
				scopes = append(scopes, ref.Scope{Name: sc.Name, Key: sc.Key, Prefixes: sc.Prefixes, Effective: sc.Users})
			}
			for _, a := range c13SchedAddrs {
				secret, handler, err := ld.Get(context.Background(), &net.TCPAddr{IP: a, Port: 1313})
				c13Judge(x, scopes, a, secret, handler, err)
			}
			x.obs = "ok"
		}})
		// a lookup whose caller has given up (its context is already over), then lookups for other addresses: every answer
		// belongs to the address it was asked for
		jobs = append(jobs, sjob{fmt.Sprintf("overlapping scopes in configuration order %v: a lookup abandoned by its caller, then lookups for other addresses", order), func(x *sx) {
			lg, sink := &srvx.Logger{}, &sinkRec{}
			ctx, cancel := context.WithCancel(context.Background())
			defer cancel()
			feed := cfgFeed{ch: mkCfgChan(1)}
			ld := newSLoader(ctx, lg, sink, nil, feed)
			feed.ch.Send(mk(order))
			ld.BlockUntilLoaded()
			var scopes []ref.Scope
			for _, i := range order {
				sc := c13Scopes[i]
				scopes = append(scopes, ref.Scope{Name: sc.Name, Key: sc.Key, Prefixes: sc.Prefixes, Effective: sc.Users})
			}
			gone, giveUp := context.WithCancel(context.Background())
			giveUp()
			// whatever the abandoned lookup returns - its own verdict or an error - is not judged
			ld.Get(gone, &net.TCPAddr{IP: c13SchedAddrs[0], Port: 1313})
			vsyncrt.Quiesce()
			for _, k := range []int{2, 4, 1} {
				secret, handler, err := ld.Get(context.Background(), &net.TCPAddr{IP: c13SchedAddrs[k], Port: 1313})
				c13Judge(x, scopes, c13SchedAddrs[k], secret, handler, err)
			}
			x.obs = "ok"
		}})
		// two configurations delivered back to back (the first may still be in the making when the second arrives): once the
		// loader has come to rest, every lookup is judged by the LAST configuration delivered
		jobs = append(jobs, sjob{fmt.Sprintf("a configuration delivered right behind another one (then scopes in order %v): lookups follow the last one delivered", order), func(x *sx) {
			lg, sink := &srvx.Logger{}, &sinkRec{}
			ctx, cancel := context.WithCancel(context.Background())
			defer cancel()
			feed := cfgFeed{ch: mkCfgChan(1)}
			ld := newSLoader(ctx, lg, sink, nil, feed)
			rev := append([]int{}, order...)
			for i, j := 0, len(rev)-1; i < j; i, j = i+1, j-1 {
				rev[i], rev[j] = rev[j], rev[i]
			}
			feed.ch.Send(mk(rev))
			feed.ch.Send(mk(order))
			ld.BlockUntilLoaded()
			vsyncrt.Quiesce()
			var scopes []ref.Scope
			for _, i := range order {
				sc := c13Scopes[i]
				scopes = append(scopes, ref.Scope{Name: sc.Name, Key: sc.Key, Prefixes: sc.Prefixes, Effective: sc.Users})
			}
			for _, a := range c13SchedAddrs {
				secret, handler, err := ld.Get(context.Background(), &net.TCPAddr{IP: a, Port: 1313})
				c13Judge(x, scopes, a, secret, handler, err)
			}
			x.obs = "ok"
		}})
		// connections are set up concurrently: two lookups in flight at once each get their own address's verdict
		for _, pair := range [][2]int{{0, 1}, {0, 2}, {3, 4}, {1, 3}} {
			pair := pair
			jobs = append(jobs, sjob{fmt.Sprintf("overlapping scopes in configuration order %v: concurrent lookups for addresses %d and %d", order, pair[0], pair[1]), func(x *sx) {
				lg, sink := &srvx.Logger{}, &sinkRec{}
				ctx, cancel := context.WithCancel(context.Background())
				defer cancel()
				feed := cfgFeed{ch: mkCfgChan(1)}
				ld := newSLoader(ctx, lg, sink, nil, feed)
				feed.ch.Send(mk(order))
				ld.BlockUntilLoaded()
				var scopes []ref.Scope
				for _, i := range order {
					sc := c13Scopes[i]
					scopes = append(scopes, ref.Scope{Name: sc.Name, Key: sc.Key, Prefixes: sc.Prefixes, Effective: sc.Users})
				}
				type res struct {
					secret  []byte
					handler tq.Handler
					err     error
				}
				var r [2]res
				var wg vsyncrt.WaitGroup
				wg.Add(2)
				for k := 0; k < 2; k++ {
					k := k
					vsyncrt.Go(func() {
						r[k].secret, r[k].handler, r[k].err = ld.Get(context.Background(), &net.TCPAddr{IP: c13SchedAddrs[pair[k]], Port: 1313})
						wg.Done()
					})
				}
				wg.Wait()
				for k := 0; k < 2; k++ {
					c13Judge(x, scopes, c13SchedAddrs[pair[k]], r[k].secret, r[k].handler, r[k].err)
				}
				x.obs = "ok"
			}})
		}
	}
	return jobs
}

var c13SchedAddrs = []net.IP{net.IPv4(10, 1, 9, 9), net.IPv4(10, 2, 0, 1), net.IPv4(10, 1, 2, 5), net.ParseIP("2001:db8::1"), net.IPv4(192, 168, 0, 7).To4()}

// c13Judge compares one lookup result with the reference admission model.
func c13Judge(x *sx, scopes []ref.Scope, a net.IP, secret []byte, handler tq.Handler, err error) {
	want := ref.Admit([]string{"10.1.2.0/24"}, nil, scopes, a, true)
	served := err == nil && secret != nil && handler != nil
	switch {
	case want < 0 && served:
		x.fail("C13/served-but-must-refuse", fmt.Sprintf("address %v served with key %q", a, secret))
	case want >= 0 && !served:
		x.fail("C13/refused-but-must-serve", fmt.Sprintf("address %v refused: %v", a, err))
	case want >= 0 && string(secret) != scopes[want].Key:
		x.fail("C13/wrong-scope", fmt.Sprintf("address %v bound to key %q, the first matching scope in configuration order is %s", a, secret, scopes[want].Name))
	}
}

// ---------------- explorer ----------------

type schedReplay struct {
	Property string   `json:"property"`
	Job      string   `json:"job"`
	Choices  []int    `json:"choices"`
	OpLog    []string `json:"op_log,omitempty"`
}

func jobsFor(id string, quick bool) []sjob {
	switch id {
	case "C15":
		jobs := c15Jobs()
		if len(jobs) != len(c15Names) {
			panic("c15Names is out of date")
		}
		for i, j := range jobs {
			if j.name != c15Names[i] {
				panic("c15Names is out of date: " + j.name)
			}
		}
		return jobs
	case "C17":
		return c17Jobs(quick)
	case "C09":
		return c09Jobs()
	case "C12":
		return c12SchedJobs()
	case "C13":
		return c13SchedJobs()
	case "C03":
		return c03SchedJobs()
	case "C08":
		return c08SchedJobs(quick)
	case "C20":
		return c20SchedJobs()
	}
	return nil
}

// c20SchedJobs: the gauges under the scheduler and the VIRTUAL clock. One or two connections run a short script (sessions
// that complete and sessions left waiting for a continuation), everything is torn down (clients close first, or the
// server is cancelled first), and then an hour passes: whatever the server armed on a timer for its sessions or
// connections fires. At every observation no gauge may be below its value at rest, and after the teardown - before
// and after the hour - all four must be back at rest.
func c20SchedJobs() []sjob {
	key := []byte("c20-key")
	type pk struct {
		conn int
		sid  uint32
		seq  byte
	}
	// sessions with an even id leave a continuation registered (c08sHandler), odd ones complete with their reply
	scripts := [][]pk{
		{{0, 0x2000, 1}},
		{{0, 0x2001, 1}},
		{{0, 0x2000, 1}, {0, 0x2000, 3}},
		{{0, 0x2000, 1}, {0, 0x2002, 1}},
		{{0, 0x2000, 1}, {0, 0x2001, 1}},
		{{0, 0x2000, 1}, {0, 0x2000, 2}}, // the second packet is refused: the connection ends with a session pending
		{{0, 0x2000, 1}, {1, 0x2000, 1}},
		{{0, 0x2000, 1}, {1, 0x2001, 1}},
	}
	var jobs []sjob
	for _, fl := range []byte{0, 4} {
		for _, sc := range scripts {
			for _, teardown := range []string{"clients close, then cancel", "cancel with the connections open"} {
				fl, sc, teardown := fl, sc, teardown
				name := fmt.Sprintf("gauges: flags %#x,", fl)
				for _, p := range sc {
					name += fmt.Sprintf(" c%d:%x:%d", p.conn, p.sid, p.seq)
				}
				name += "; " + teardown + "; then an hour passes"
				jobs = append(jobs, sjob{name, func(x *sx) {
					rest := readGauges()
					observe := func(when string, atRest bool) {
						g := readGauges()
						for _, n := range gaugeNames {
							if g[n] < rest[n] {
								x.fail("C20/below-rest:"+n, fmt.Sprintf("%s: gauge %s is %v, below its value at rest %v", when, n, g[n], rest[n]))
							} else if atRest && g[n] != rest[n] {
								x.fail("C20/not-at-rest:"+n, fmt.Sprintf("%s: gauge %s is %v, was %v before the connections", when, n, g[n], rest[n]))
							}
						}
					}
					st := &c08sState{next: 1}
					w := newSWorldL(key, c08sHandler{st: st, id: 0})
					w.serve()
					conns := []*vsyncrt.Conn{w.W.NewConn(0, srvx.Addr4(10, 0, 0, 1, 2001)), w.W.NewConn(1, srvx.Addr4(10, 0, 0, 2, 2002))}
					used := map[int]bool{}
					for _, p := range sc {
						c := conns[p.conn]
						if !used[p.conn] {
							used[p.conn] = true
							w.L.Push(c)
						}
						m := ref.NewMsg()
						m.N["authen_method"], m.N["priv_lvl"], m.N["authen_type"], m.N["authen_service"] = 6, 1, 1, 1
						m.S["user"] = []byte("u")
						m.Args = [][]byte{[]byte("service=shell"), []byte("cmd=show")}
						body, _ := ref.AuthorRequest.Encode(m)
						if !c.Closed() {
							c.Feed(ref.Packet(ref.Header{Version: 0xc0, Type: 2, Seq: p.seq, Flags: fl, Session: p.sid}, key, body))
						}
						vsyncrt.Quiesce()
						observe("after a packet was digested", false)
					}
					if teardown == "clients close, then cancel" {
						for i, c := range conns {
							if used[i] && !c.Closed() {
								c.FeedEOF()
							}
						}
						vsyncrt.Quiesce()
						observe("after the clients closed", false)
					}
					if teardown == "cancel with the connections open" {
						// the server notices the cancellation when the read deadline of each connection expires
						w.cancel()
						w.L.FireDeadline()
						vsyncrt.Quiesce()
						for i, c := range conns {
							if used[i] && !c.Closed() {
								c.FireDeadline()
							}
						}
						vsyncrt.Quiesce()
						observe("after the cancellation", false)
					}
					w.shutdown()
					vsyncrt.Quiesce()
					observe("after every connection closed and Serve returned", true)
					vsyncrt.Advance(time.Hour)
					vsyncrt.Quiesce()
					observe("an hour after every connection closed and Serve returned", true)
					x.obs = fmt.Sprint(len(st.log))
				}})
			}
		}
	}
	return jobs
}

func raceLogSize() int64 {
	var total int64
	for _, kv := range strings.Fields(os.Getenv("GORACE")) {
		if strings.HasPrefix(kv, "log_path=") {
			p := strings.TrimPrefix(kv, "log_path=") + fmt.Sprintf(".%d", os.Getpid())
			if st, err := os.Stat(p); err == nil {
				total += st.Size()
			}
		}
	}
	return total
}

func raceLogTail(from int64) string {
	for _, kv := range strings.Fields(os.Getenv("GORACE")) {
		if strings.HasPrefix(kv, "log_path=") {
			p := strings.TrimPrefix(kv, "log_path=") + fmt.Sprintf(".%d", os.Getpid())
			b, err := os.ReadFile(p)
			if err == nil && int64(len(b)) > from {
				return string(b[from:])
			}
		}
	}
	return ""
}

// raceKeys extracts, per report, the unordered pair of topmost repository frames of the two accesses.
func raceKeys(text string) (keys []string, reports []string) {
	for _, rep := range strings.Split(text, "==================") {
		if !strings.Contains(rep, "DATA RACE") {
			continue
		}
		var frames []string
		lines := strings.Split(rep, "\n")
		for i := 0; i < len(lines); i++ {
			l := lines[i]
			if (strings.Contains(l, " at 0x") && strings.Contains(l, "by goroutine")) || strings.Contains(l, "by main goroutine") {
				// topmost frame that belongs to the repository (not the scheduler runtime)
				top := ""
				for j := i + 1; j < len(lines) && strings.TrimSpace(lines[j]) != ""; j += 2 {
					fn := strings.TrimSpace(lines[j])
					if strings.Contains(fn, "facebookincubator/tacquito") && !strings.Contains(fn, "/vsyncrt.") {
						loc := ""
						if j+1 < len(lines) {
							loc = strings.TrimSpace(lines[j+1])
							if k := strings.LastIndex(loc, "/"); k >= 0 {
								loc = loc[k+1:]
							}
							if k := strings.Index(loc, " "); k >= 0 {
								loc = loc[:k]
							}
						}
						if k := strings.Index(fn, "("); k > 0 && strings.HasSuffix(fn, ")") && !strings.Contains(fn[k:], "*") {
							fn = fn[:strings.LastIndex(fn, "(")]
						}
						top = strings.TrimPrefix(fn, "github.com/facebookincubator/tacquito") + " " + loc
						break
					}
				}
				if top == "" && i+1 < len(lines) {
					top = strings.TrimSpace(lines[i+1])
				}
				if len(frames) < 2 {
					frames = append(frames, top)
				}
			}
		}
		sort.Strings(frames)
		keys = append(keys, "race: "+strings.Join(frames, " <-> "))
		reports = append(reports, rep)
	}
	return
}

func schedRun(c *Ctx) {
	jobs := jobsFor(c.ID, c.Quick)
	bound := tierPick(c.Quick, 1, 2)
	if c.ID == "C17" && !c.Quick {
		bound = 2
	}
	completed := map[int]bool{}
	only := os.Getenv("VERIF_JOB_FILTER") // debugging aid: explore only the jobs whose name begins with this
	for ji, job := range jobs {
		if !c.Mine(ji) {
			continue
		}
		if only != "" && !strings.HasPrefix(job.name, only) {
			continue
		}
		c.R.State(evid.Hash("job", job.name))
		c.R.Count("sched_jobs_total", 1)
		for b := 0; b <= bound; b++ {
			if !exploreJob(c, job, b) {
				break
			}
			completed[b] = true
			c.R.Count(fmt.Sprintf("sched_jobs_completed_deviation_bound_%d", b), 1)
		}
		if c.Expired() {
			break
		}
	}
	c.R.Count(fmt.Sprintf("deviation_bound_target_%d", bound), 1)
}

// exploreJob enumerates every choice vector with at most maxDev deviations; false when capped.
func exploreJob(c *Ctx, job sjob, maxDev int) bool {
	prefix := []int{}
	for {
		if c.Expired() {
			return false
		}
		x := &sx{}
		c.Cur(schedReplay{Property: c.ID, Job: job.name, Choices: prefix})
		before := raceLogSize()
		res := vsyncrt.Run(prefix, maxDev, false, func() { job.body(x) })
		c.R.Eval()
		c.R.Trans(int64(res.Steps))
		c.R.Count("scheduling_points_with_choice", int64(len(res.Trail)))
		rep := schedReplay{Property: c.ID, Job: job.name, Choices: append([]int{}, res.Trail...)}
		devs := 0
		for _, v := range res.Trail {
			if v != 0 {
				devs++
			}
		}
		if devs == maxDev { // executions with fewer deviations were counted under the smaller bound
			c.R.Distinct(evid.Hash(job.name, fmt.Sprint(res.Trail)))
		}
		if res.Diverged != "" {
			fmt.Fprintf(os.Stderr, "BROKEN: nondeterministic replay in %q: %s\n", job.name, res.Diverged)
			os.Exit(3)
		}
		if res.Panic != "" {
			c.R.ViolateMin("panic: "+firstLine(res.Panic), fmt.Sprintf("%s: panic under schedule %v: %s", job.name, res.Trail, res.Panic), rep, devs)
		}
		if res.Deadlock {
			c.R.ViolateMin(c.ID+"/deadlock", fmt.Sprintf("%s: no thread can run (deadlock) under schedule %v; blocked: %v", job.name, res.Trail, res.Blocked), rep, devs)
		}
		if res.StepLimit {
			c.R.ViolateMin(c.ID+"/livelock", fmt.Sprintf("%s: step limit hit under schedule %v", job.name, res.Trail), rep, devs)
		}
		for _, v := range x.viol {
			kv := strings.SplitN(v, "|", 2)
			c.R.ViolateMin(kv[0], fmt.Sprintf("%s: schedule %v: %s", job.name, res.Trail, kv[1]), rep, devs)
		}
		if c.ID == "C15" {
			after := raceLogSize()
			// ThreadSanitizer keeps four accesses per 8-byte word and evicts by trace position: whether the earlier of two
			// racing accesses is still there when the later one happens can differ between two runs of the SAME schedule
			// (measured: one recorded schedule, 6 replays, 3 reports). Schedules with a deviation are therefore judged twice
			// at bounds <= 1; a report in either run counts. This can only add reports of real unordered access pairs.
			if after == before && devs == maxDev && devs >= 1 && maxDev <= 1 && res.Panic == "" && !res.Deadlock {
				again := vsyncrt.Run(res.Trail, maxDev, false, func() { job.body(&sx{}) })
				c.R.Count("race_verdict_reruns", 1)
				c.R.Trans(int64(again.Steps))
				after = raceLogSize()
			}
			if after > before {
				keys, reports := raceKeys(raceLogTail(before))
				for i, k := range keys {
					c.R.ViolateMin(k, fmt.Sprintf("%s: data race reported under schedule %v (%d deviations):%s", job.name, res.Trail, devs, trunc(reports[i], 1800)), rep, devs)
				}
			}
		}
		if len(x.viol) == 0 && !res.Deadlock && res.Panic == "" {
			c.R.Trace()
		}
		c.R.Count("outcomes:"+job.name[:2], 0)
		if c.R.Evaluations%400 == 1 {
			c.R.SampleCap(6, map[string]interface{}{"job": job.name, "choices": res.Trail, "arities": res.Arity, "steps": res.Steps, "threads": res.Threads, "outcome": trunc(x.obs, 120)})
		}
		// next vector
		i := len(res.Trail) - 1
		for i >= 0 && res.Trail[i]+1 >= res.Arity[i] {
			i--
		}
		if i < 0 {
			return true
		}
		prefix = append(append([]int{}, res.Trail[:i]...), res.Trail[i]+1)
	}
}

func firstLine(s string) string {
	if i := strings.IndexByte(s, '\n'); i >= 0 {
		return s[:i]
	}
	return s
}

// schedReplayOne re-executes one recorded schedule with the operation log kept.
func schedReplayOne(c *Ctx, raw json.RawMessage) {
	var rep schedReplay
	if err := json.Unmarshal(raw, &rep); err != nil {
		panic(err)
	}
	for _, job := range jobsFor(rep.Property, false) {
		if job.name != rep.Job {
			continue
		}
		// The verdict comes from a run WITHOUT the operation log: formatting the log goes through fmt's sync.Pool, whose
		// race annotations are happens-before edges between the threads of the program - with the log kept, a recorded
		// race can go unreported. The log is printed from a second run of the same schedule.
		// ThreadSanitizer's bounded shadow (four accesses per word) makes the report of one and the same schedule a matter
		// of chance in some cases: the schedule is judged up to four times, the first run that reports anything counts.
		var x *sx
		var res vsyncrt.Result
		var before, after int64
		for try := 0; try < 4; try++ {
			x = &sx{}
			before = raceLogSize()
			res = vsyncrt.Run(rep.Choices, -1, false, func() { job.body(x) })
			after = raceLogSize()
			if after > before || len(x.viol) > 0 || res.Deadlock || res.Panic != "" {
				break
			}
		}
		lg := vsyncrt.Run(rep.Choices, -1, true, func() { job.body(&sx{}) })
		for _, l := range lg.OpLog {
			fmt.Println("  ", l)
		}
		if fmt.Sprint(lg.Trail) != fmt.Sprint(res.Trail) {
			fmt.Println("   (the logged run took other choices than the judged one: ", lg.Trail, ")")
		}
		for _, v := range x.viol {
			kv := strings.SplitN(v, "|", 2)
			c.R.Violate(kv[0], kv[1], rep)
		}
		if res.Deadlock {
			c.R.Violate(rep.Property+"/deadlock", fmt.Sprint(res.Blocked), rep)
		}
		if res.Panic != "" {
			c.R.Violate("panic: "+firstLine(res.Panic), res.Panic, rep)
		}
		if after > before {
			tail := raceLogTail(before)
			if int64(len(tail)) > after-before {
				tail = tail[:after-before]
			}
			keys, reports := raceKeys(tail)
			for i, k := range keys {
				c.R.Violate(k, reports[i], rep)
			}
		}
		return
	}
	fmt.Fprintln(os.Stderr, "job not found:", rep.Job)
}
