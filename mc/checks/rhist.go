package checks

import (
	"encoding/hex"
	"fmt"
	"strings"

	"github.com/facebookincubator/tacquito/cmds/server/config"
	"golang.org/x/crypto/bcrypt"

	"verif/mc/ref"
	"verif/mc/simnet"
	"verif/mc/srvx"
)

// Shared machinery of the reference-server history explorers (C07, C09, C10, C14, C18):
// a rich configuration, an abstract packet alphabet, and a runner that executes a history on one
// connection of the real server and reports, per step, everything an oracle may want to look at.

const (
	rKeyS1 = "scope-one-shared-secret"
	rKeyS2 = "scope-two-shared-secret"
)

// passwords of the configuration (tokens may be replaced for C18)
type rSecrets struct {
	Own, Group2, Group3, Override, Elsewhere, Shared1, Shared2, Keychain string
	Key1, Key2                                                           string
}

// tokenSecrets replaces every password and shared secret by a unique token derived from the seed (C18).
func tokenSecrets(seed int) rSecrets {
	t := func(n string) string { return fmt.Sprintf("TOK%s%08xQZ", n, uint32(seed)*2654435761+0x9e3779b9) }
	return rSecrets{Own: t("own"), Group2: t("grp2"), Group3: t("grp3"), Override: t("ovr"), Elsewhere: t("else"),
		Shared1: t("sh1"), Shared2: t("sh2"), Keychain: t("kc"), Key1: t("key1"), Key2: t("key2")}
}

func defaultSecrets() rSecrets {
	return rSecrets{Own: "pw-own-1", Group2: "pw-group-2", Group3: "pw-group-3", Override: "pw-override-4", Elsewhere: "pw-else-5",
		Shared1: "pw-shared-6", Shared2: "pw-shared-7", Keychain: "pw-keychain-8", Key1: rKeyS1, Key2: rKeyS2}
}

// rEnv is a configuration plus the credential model derived from it.
type rEnv struct {
	Name   string // "" main configuration, "odd" the C14 configuration
	Sec    rSecrets
	Cfg    config.ServerConfig
	KC     *keychainRec
	KCMode string // "", "ok", "err"
	// cred[scope][user] = the password that verifies for that user in that scope ("" = user cannot authenticate)
	cred map[string]map[string]string
	// known[scope][user] = user exists in scope
	known map[string]map[string]bool
}

func newREnv(sec rSecrets, kcMode string) *rEnv {
	permitShow := []config.Command{{Name: "show", Action: config.PERMIT}, {Name: "configure", Match: []string{"terminal"}, Action: config.PERMIT}, {Name: "reload", Action: config.DENY}}
	svc := []config.Service{{Name: "ppp", Match: []config.Value{{Name: "protocol", Values: []string{"ip"}}}, SetValues: []config.Value{{Name: "addr", Values: []string{"10.0.0.1"}}}}}
	e := &rEnv{Sec: sec, KCMode: kcMode}
	users := []config.User{
		{Name: "own", Scopes: []string{"s1"}, Authenticator: bcryptAuthn(sec.Own), Accounter: fileAcct(), Commands: permitShow, Services: svc},
		{Name: "viagroup", Scopes: []string{"s1"}, Groups: []config.Group{
			{Name: "g-without", Commands: permitShow},
			{Name: "g-two", Authenticator: bcryptAuthn(sec.Group2), Accounter: fileAcct()},
			{Name: "g-three", Authenticator: bcryptAuthn(sec.Group3)}}},
		{Name: "noauth", Scopes: []string{"s1"}, Commands: permitShow},
		{Name: "override", Scopes: []string{"s1"}, Authenticator: bcryptAuthn(sec.Override), Groups: []config.Group{{Name: "g-two", Authenticator: bcryptAuthn(sec.Group2)}}},
		{Name: "elsewhere", Scopes: []string{"s2"}, Authenticator: bcryptAuthn(sec.Elsewhere)},
		{Name: "shared", Scopes: []string{"s1"}, Authenticator: bcryptAuthn(sec.Shared1)},
		{Name: "shared", Scopes: []string{"s2"}, Authenticator: bcryptAuthn(sec.Shared2)},
		{Name: "badhex", Scopes: []string{"s1"}, Authenticator: &config.Authenticator{Type: config.BCRYPT, Options: map[string]string{"hash": "zz-not-hex"}}},
		{Name: "nothash", Scopes: []string{"s1"}, Authenticator: &config.Authenticator{Type: config.BCRYPT, Options: map[string]string{"hash": "00112233"}}},
		// stored credentials that decode from hex but are not usable bcrypt hashes: nothing verifies against them
		{Name: "shorthash", Scopes: []string{"s1"}, Authenticator: &config.Authenticator{Type: config.BCRYPT, Options: map[string]string{"hash": hex.EncodeToString(bcryptRaw(sec.Own)[:30])}}},
		{Name: "crypt6", Scopes: []string{"s1"}, Authenticator: &config.Authenticator{Type: config.BCRYPT, Options: map[string]string{"hash": hex.EncodeToString([]byte("$6$rounds=5000$saltsalt$0123456789abcdefghijklmnopqrstuvwxyzABCDEFGHIJKLMNOPQRSTUVWXYZ./0123456789abcdefghijklmnop"))}}},
		{Name: strings.Repeat("n", 255), Scopes: []string{"s1"}, Authenticator: bcryptAuthn(sec.Group3)},
		{Name: "badcost", Scopes: []string{"s1"}, Authenticator: &config.Authenticator{Type: config.BCRYPT, Options: map[string]string{"hash": hex.EncodeToString([]byte("$2a$99$" + string(bcryptRaw(sec.Own)[7:])))}}},
	}
	e.cred = map[string]map[string]string{
		"s1": {"own": sec.Own, "viagroup": sec.Group2, "override": sec.Override, "shared": sec.Shared1, strings.Repeat("n", 255): sec.Group3},
		"s2": {"elsewhere": sec.Elsewhere, "shared": sec.Shared2},
	}
	e.known = map[string]map[string]bool{
		"s1": {"own": true, "viagroup": true, "noauth": true, "override": true, "shared": true, "badhex": true, "nothash": true, "shorthash": true, "crypt6": true, "badcost": true, strings.Repeat("n", 255): true},
		"s2": {"elsewhere": true, "shared": true},
	}
	if kcMode != "" {
		users = append(users, config.User{Name: "keychain", Scopes: []string{"s1"}, Authenticator: &config.Authenticator{Type: config.BCRYPT, Options: map[string]string{"group": "kg"}}})
		e.known["s1"]["keychain"] = true
		e.KC = &keychainRec{Hash: map[string][]byte{"keychain": bcryptRaw(sec.Keychain)}, Err: kcMode == "err"}
		if kcMode == "ok" {
			e.cred["s1"]["keychain"] = sec.Keychain
		}
	}
	e.Cfg = config.ServerConfig{
		Secrets: []config.SecretConfig{scopeCfg("s1", sec.Key1, "10.0.0.0/8"), scopeCfg("s2", sec.Key2, "192.168.0.0/16")},
		Users:   users,
	}
	return e
}

func cfgUser(name, scope, pw string) config.User {
	return config.User{Name: name, Scopes: []string{scope}, Authenticator: bcryptAuthn(pw)}
}

// credOK is the independent credential oracle: user of the scope, resolves to an authenticator, bcrypt verifies.
func (e *rEnv) credOK(scope, user, pw string) bool {
	want, ok := e.cred[scope][user]
	if !ok || want == "" || pw == "" {
		return false
	}
	return bcrypt.CompareHashAndPassword(bcryptRaw(want), []byte(pw)) == nil
}

// rPkt is one abstract packet of a history.
type rPkt struct {
	Kind    string   `json:"kind"`
	Sid     int      `json:"sid"`           // 0,1: session A,B
	SeqMode string   `json:"seq,omitempty"` // "" expected | same | lower | even | jump | 255 | one
	User    string   `json:"user,omitempty"`
	Pw      string   `json:"pw,omitempty"`
	Msg     string   `json:"msg,omitempty"`
	Abort   bool     `json:"abort,omitempty"`
	Action  int      `json:"action,omitempty"`
	AType   int      `json:"atype,omitempty"`
	Service int      `json:"service,omitempty"`
	Minor   int      `json:"minor,omitempty"`
	Args    []string `json:"args,omitempty"`
	Flags   int      `json:"flags,omitempty"`   // accounting flags
	Raw     string   `json:"raw_hex,omitempty"` // raw body / raw stream bytes
	Mut     *rMut    `json:"mut,omitempty"`
}

// rMut mutates the wire form of a packet (C14).
type rMut struct {
	Trunc   int  `json:"trunc,omitempty"` // keep only this many body bytes (length field adjusted unless LieLen)
	Off     int  `json:"off,omitempty"`   // corrupt this cleartext body offset
	Val     int  `json:"val,omitempty"`   // ... to this value (-1: orig+1)
	Corrupt bool `json:"corrupt,omitempty"`
	LenAdd  int  `json:"len_add,omitempty"` // add to the header length field without changing the bytes that follow
	LenSet  int  `json:"len_set,omitempty"` // set the header length field to this value (0: leave)
	HdrOff  int  `json:"hdr_off,omitempty"` // corrupt header octet (1-based; 0 none)
	HdrVal  int  `json:"hdr_val,omitempty"`
}

func (p rPkt) String() string {
	s := fmt.Sprintf("%c:%s", 'A'+p.Sid, p.Kind)
	if p.User != "" || p.Kind == "ascii" {
		s += "(" + p.User
		if p.Pw != "" {
			s += "," + trunc(p.Pw, 14)
		}
		s += ")"
	}
	if p.Msg != "" {
		s += "[" + trunc(p.Msg, 14) + "]"
	}
	if p.Abort {
		s += "!abort"
	}
	if p.SeqMode != "" {
		s += "@" + p.SeqMode
	}
	if p.Kind == "start" {
		s += fmt.Sprintf("{a%d t%d s%d m%d}", p.Action, p.AType, p.Service, p.Minor)
	}
	if p.Mut != nil {
		s += fmt.Sprintf("%+v", *p.Mut)
	}
	return s
}

func rHistString(h []rPkt) string {
	s := make([]string, len(h))
	for i, p := range h {
		s[i] = p.String()
	}
	return "[" + strings.Join(s, " ") + "]"
}

// wire form of a packet: header type/minor and cleartext body
func (p rPkt) body() (typ byte, minor byte, body []byte) {
	m := ref.NewMsg()
	switch p.Kind {
	case "wrongkey": // an ordinary ASCII START, obfuscated with a key the server does not hold
		return rPkt{Kind: "ascii", User: "own"}.body()
	case "ascii": // ASCII login START, user possibly empty
		m.N["action"], m.N["priv_lvl"], m.N["authen_type"], m.N["authen_service"] = 1, 1, 1, 1
		m.S["user"], m.S["port"], m.S["rem_addr"] = []byte(p.User), []byte("tty0"), []byte("203.0.113.9")
		b, _ := ref.AuthenStart.Encode(m)
		return 1, 0, b
	case "pap":
		m.N["action"], m.N["priv_lvl"], m.N["authen_type"], m.N["authen_service"] = 1, 1, 2, 1
		m.S["user"], m.S["port"], m.S["rem_addr"], m.S["data"] = []byte(p.User), []byte("tty0"), []byte("203.0.113.9"), []byte(p.Pw)
		b, _ := ref.AuthenStart.Encode(m)
		return 1, 1, b
	case "start": // fully parameterised START
		m.N["action"], m.N["priv_lvl"], m.N["authen_type"], m.N["authen_service"] = p.Action, 1, p.AType, p.Service
		m.S["user"], m.S["port"], m.S["rem_addr"], m.S["data"] = []byte(p.User), []byte("tty0"), []byte("203.0.113.9"), []byte(p.Pw)
		b, _ := ref.AuthenStart.Encode(m)
		return 1, byte(p.Minor), b
	case "cont":
		if p.Abort {
			m.N["flags"] = 1
		}
		m.S["user_msg"] = []byte(p.Msg)
		b, _ := ref.AuthenContinue.Encode(m)
		return 1, 0, b
	case "confusable":
		return 1, 0, confusableContinue(p.Msg, p.Pw)
	case "author":
		m.N["authen_method"], m.N["priv_lvl"], m.N["authen_type"], m.N["authen_service"] = 6, 1, 1, 1
		m.S["user"], m.S["port"], m.S["rem_addr"] = []byte(p.User), []byte("tty0"), []byte("203.0.113.9")
		for _, a := range p.Args {
			m.Args = append(m.Args, []byte(a))
		}
		b, _ := ref.AuthorRequest.Encode(m)
		return 2, 0, b
	case "acct":
		m.N["flags"], m.N["authen_method"], m.N["priv_lvl"], m.N["authen_type"], m.N["authen_service"] = p.Flags, 6, 1, 1, 1
		m.S["user"], m.S["port"], m.S["rem_addr"] = []byte(p.User), []byte("tty0"), []byte("203.0.113.9")
		m.Args = [][]byte{[]byte("task_id=1"), []byte("cmd=show version")}
		if p.Args != nil {
			m.Args = nil
			for _, a := range p.Args {
				m.Args = append(m.Args, []byte(a))
			}
		}
		b, _ := ref.AcctRequest.Encode(m)
		return 3, 0, b
	case "rawbody": // Action carries the header type
		var b []byte
		fmt.Sscanf(p.Raw, "%x", &b)
		if b == nil {
			b = []byte{}
		}
		return byte(p.Action), byte(p.Minor), b
	}
	panic("unknown packet kind " + p.Kind)
}

// confusableContinue builds the 517-byte authentication CONTINUE whose octets also parse as an ASCII START:
// as CONTINUE: user_msg = bytes 5..260 (256 bytes), data = 256 bytes; as START: user 128, port 127, rem_addr 127, data 127 bytes.
// userMsg fills the CONTINUE's user_msg after its three forced octets, startData is placed where the START's data field lies.
func confusableContinue(userMsg, startData string) []byte {
	b := make([]byte, 517)
	for i := range b {
		b[i] = 'x'
	}
	b[0], b[1] = 0x01, 0x00          // user_msg_len 256   | action=login, priv_lvl=0
	b[2], b[3] = 0x01, 0x00          // data_len 256       | authen_type=ASCII, service=none
	b[4] = 0x80                      // flags (no abort)   | user_len=128
	b[5], b[6], b[7] = 127, 127, 127 // user_msg[0..2] | port_len, rem_addr_len, data_len
	copy(b[8:261], []byte(userMsg))
	copy(b[390:517], []byte(startData))
	return b
}

// confusableUserMsg returns the user_msg (password as presented) of the confusable CONTINUE.
func confusableUserMsg(userMsg, startData string) string {
	b := confusableContinue(userMsg, startData)
	return string(b[5:261])
}

// stepInfo is everything observed for one delivered packet.
type stepInfo struct {
	Index   int
	Pkt     rPkt
	H       ref.Header // header as sent
	Clear   []byte     // cleartext body as sent (before wire mutation)
	Wire    []byte
	Verdict ref.Verdict
	Class   string // must (key-mismatch signature) | must-not | either | n/a
	Calls   []*handlerCall
	Out     []byte
	Packets []srvx.WirePacket
	Stray   int
	Replies []*ref.Msg // decoded reply bodies (per packet; nil when undecodable)
	Closed  bool
	Logs    []srvx.LogCall
	Sinks   []sinkCall
	Scope   string
	Key     []byte
}

// rConn is one connection of a history run with the model of its loop.
type rConn struct {
	C     *simnet.Conn
	M     *ref.ConnModel
	Scope string
	Key   []byte
	// per-session sequence bookkeeping for choosing sequence numbers: highest number seen or sent
	last map[uint32]int
}

func (rw *rworld) openR(e *rEnv, scope string) (*rConn, error) {
	if scope == "s3" {
		return rw.openAddr(e, scope)
	}
	addr := srvx.Addr4(10, 7, 7, 7, 7000)
	key := []byte(e.Sec.Key1)
	if scope == "s2" {
		addr = srvx.Addr4(192, 168, 7, 7, 7000)
		key = []byte(e.Sec.Key2)
	}
	c, err := rw.W.Open(addr)
	return &rConn{C: c, M: ref.NewConnModel(), Scope: scope, Key: key, last: map[uint32]int{}}, err
}

func sidOf(i int) uint32 { return uint32(0x51d00000 + i) }

// chooseSeq picks the concrete sequence number for a packet given the mode and the session's history.
func (rc *rConn) chooseSeq(sid uint32, mode string) int {
	last := rc.last[sid]
	exp := last + 1
	if exp%2 == 0 {
		exp++
	}
	if exp > 255 {
		exp = 255
	}
	switch mode {
	case "":
		return exp
	case "same":
		if last == 0 {
			return 1
		}
		if last%2 == 0 {
			return last - 1
		}
		return last
	case "lower":
		if last >= 3 {
			return 1
		}
		return 1
	case "even":
		return exp + 1
	case "jump":
		if exp+2 <= 255 {
			return exp + 2
		}
		return 255
	case "255":
		return 255
	case "one":
		return 1
	}
	panic("seq mode " + mode)
}

var replyLayouts = map[byte]ref.Layout{1: ref.AuthenReply, 2: ref.AuthorReply, 3: ref.AcctReply}

// deliverR sends one abstract packet on rc and gathers the step information.
func (rw *rworld) deliverR(rc *rConn, idx int, p rPkt) (stepInfo, error) {
	typ, minor, clear := p.body()
	sid := sidOf(p.Sid)
	seq := rc.chooseSeq(sid, p.SeqMode)
	h := ref.Header{Version: 0xc0 | minor, Type: typ, Seq: byte(seq), Flags: 0, Session: sid, Length: uint32(len(clear))}
	seen := append([]byte{}, clear...)
	lenField := uint32(len(clear))
	if m := p.Mut; m != nil {
		if m.Corrupt && m.Off < len(seen) {
			if m.Val < 0 {
				seen[m.Off]++
			} else {
				seen[m.Off] = byte(m.Val)
			}
		}
		if m.Trunc > 0 && m.Trunc <= len(seen) {
			seen = seen[:len(seen)-m.Trunc]
			lenField = uint32(len(seen))
		}
		lenField = uint32(int(lenField) + m.LenAdd)
		if m.LenSet != 0 {
			lenField = uint32(m.LenSet)
		}
	}
	h.Length = uint32(len(seen))
	wire := ref.Packet(h, rc.Key, seen)
	// a lying length field / corrupted header octet is applied on the wire form
	if p.Mut != nil {
		wire[8], wire[9], wire[10], wire[11] = byte(lenField>>24), byte(lenField>>16), byte(lenField>>8), byte(lenField)
		if p.Mut.HdrOff > 0 {
			wire[p.Mut.HdrOff-1] = byte(p.Mut.HdrVal)
		}
	}
	if p.Kind == "wrongkey" {
		wire = ref.Packet(h, []byte("not-the-key"), seen)
	}
	info := stepInfo{Index: idx, Pkt: p, H: ref.DecodeHeader(wire), Clear: seen, Wire: wire, Scope: rc.Scope, Key: rc.Key}
	rw.takeCalls()
	rw.Log.Take()
	rw.Sink.take()
	closed, err := rw.W.Deliver(rc.C, wire)
	if err != nil {
		return info, err
	}
	info.Closed = closed
	info.Calls = rw.takeCalls()
	info.Logs = rw.Log.Take()
	info.Sinks = rw.Sink.take()
	info.Out = rc.C.Take()
	pk, rest := srvx.ParseStream(info.Out)
	info.Packets, info.Stray = pk, len(rest)
	for _, q := range pk {
		if l, ok := replyLayouts[q.H.Type]; ok {
			if m, cl := l.Decode(ref.Obfuscate(q.H, rc.Key, q.Body)); cl == ref.Exact {
				info.Replies = append(info.Replies, m)
				continue
			}
		}
		info.Replies = append(info.Replies, nil)
	}
	// classification of what the server saw, and the loop model's verdict (the handler's Next registration is an
	// observed input of the model, like the packet itself)
	next := false
	for _, cl := range info.Calls {
		if cl.Next {
			next = true
		}
	}
	info.Class = classifySeen(info.H, wire, rc.Key)
	switch {
	case info.Class == "misframed":
		// not a well-framed packet: the loop model does not apply; the connection is treated as spent
		rc.M.Open = false
	case info.Class == "must":
		rc.M.Open = false
		info.Verdict = ref.Verdict{Closed: true}
	case info.Class == "either" && len(info.Calls) == 0 && info.Closed:
		rc.M.Open = false
		info.Verdict = ref.Verdict{Closed: true}
	default:
		info.Verdict = rc.M.Step(info.H, ref.Action{Reply: true, Next: next})
	}
	// sequence bookkeeping for the next choice: what was received and sent; forgotten sessions start over
	if seq > rc.last[sid] {
		rc.last[sid] = seq
	}
	for _, q := range pk {
		if q.H.Session == sid && int(q.H.Seq) > rc.last[sid] {
			rc.last[sid] = int(q.H.Seq)
		}
	}
	if !next {
		delete(rc.last, sid)
	}
	return info, nil
}

// classifySeen classifies the bytes the server will see for a wire packet: misframed (length field does not
// match the bytes sent), invalid-header, must (key-mismatch signature: inconsistent under every layout of the type),
// must-not (an exact, valid request layout, or sent in the clear), either.
func classifySeen(h ref.Header, wire, key []byte) string {
	if !h.Valid() {
		if h.Length > 65536 || int(h.Length) == len(wire)-12 {
			return "invalid-header"
		}
		return "misframed"
	}
	if int(h.Length) != len(wire)-12 {
		return "misframed"
	}
	seen := ref.Obfuscate(h, key, wire[12:])
	if h.Flags&1 != 0 {
		return "must-not"
	}
	all := true
	for _, l := range ref.LayoutsByType[int(h.Type)] {
		if _, cl := l.Decode(seen); cl != ref.Inconsistent {
			all = false
		}
	}
	for _, l := range requestLayouts[h.Type] {
		if m, cl := l.Decode(seen); cl == ref.Exact && validBySpec(specByName(l.Name), m) {
			return "must-not"
		}
	}
	if all {
		return "must"
	}
	return "either"
}
