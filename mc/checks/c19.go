package checks

import (
	"encoding/json"
	"fmt"
	"strings"

	"verif/mc/evid"
	"verif/mc/ref"
	"verif/mc/simnet"
	"verif/mc/srvx"
)

// C19: key mismatch is signalled and never processed; valid requests are never flagged.

func init() {
	Registry["C19"] = &Check{
		Spec: func(tier string) evid.Spec {
			return evid.Spec{ID: "C19", Level: "exploration", Exhaustive: true,
				Rule: "(i) seen-bytes enumeration: for each packet type every combination of the first 9 body octets over {0,1,2,255} (length octets of every layout fall in that range) x 0..3 trailing bytes, plus 16-bit length pairs over {0,1,2,256,65535}, " +
					"sent obfuscated under the server's key so the server sees exactly those bytes; (ii) 8 client x 8 server secrets (up to 144 octets, three of them sharing their first 122 / 130 octets) x a corpus of valid requests of all four request layouts x 3 (session, seq) pads; " +
					"(iii) every corpus request under the right key and in the clear under every server key; (iv) every odd client sequence number 1..255 x 2 session ids x {inconsistent bytes, corpus requests under a wrong key, the right key, in the clear (flag octets 0x01 and, for seq 1/3/255, 0x03 0x05 0x09 0x11 0x81 0xff)}; (v) mismatching packets followed in the same segment by one octet, by the header or by the whole of the client's next packet. The reference classifies the bytes the server will see under every layout of the type: " +
					"all layouts inconsistent => MUST signal (no handler, exactly one ERROR packet of the same type obfuscated with the server key, close); exact request layout or unencrypted flag => MUST NOT signal (handler runs, nothing written); " +
					"otherwise either complete behaviour is accepted. distinct_nontrivial counts distinct (type, seen bytes) in the MUST or MUST-NOT class",
				Assumptions: []string{"classification by mc/ref/layout.go Decode (announced variable lengths exceed the bytes that follow = inconsistent)"}}
		},
		Workers: constInt(16, 16),
		Run:     c19Run,
		Replay:  c19Replay,
	}
}

type c19Case struct {
	Type      byte   `json:"type"`
	Seen      string `json:"seen_hex"` // cleartext the server will see (when ClientKey == ServerKey) or the client's cleartext
	ClientKey string `json:"client_key"`
	ServerKey string `json:"server_key"`
	Session   uint32 `json:"session"`
	Seq       byte   `json:"seq"`
	Flags     byte   `json:"flags"`
	// Behind: what the client has already sent behind this packet, in the same segment: "" nothing, "byte" one octet,
	// "header" the 12 header octets of its next packet, "packet" its complete next (well-formed) packet
	Behind string `json:"behind,omitempty"`
}

type c19World struct {
	w    *srvx.World
	rec  *c05Rec
	conn *simnet.Conn
	key  string
}

func (cw *c19World) ensure(c *Ctx, key string) {
	if cw.w != nil && cw.key != key {
		cw.w.Stop()
		cw.w = nil
	}
	if cw.w == nil {
		cw.rec = &c05Rec{}
		cw.w = srvx.Start(srvx.FixedSecret{Key: []byte(key), H: cw.rec}, nil)
		cw.key = key
		cw.conn = nil
	}
	if cw.conn == nil || cw.conn.Closed() {
		conn, err := cw.w.Open(srvx.Addr4(10, 19, 0, 1, 1900))
		if err != nil {
			c.Abort("hang", err.Error(), nil)
		}
		cw.conn = conn
	}
}

// errorStatus of the reply layout per type.
var errorStatus = map[byte]int{1: 7, 2: 0x11, 3: 2}
var replyLayout = map[byte]ref.Layout{1: ref.AuthenReply, 2: ref.AuthorReply, 3: ref.AcctReply}
var requestLayouts = map[byte][]ref.Layout{1: {ref.AuthenStart, ref.AuthenContinue}, 2: {ref.AuthorRequest}, 3: {ref.AcctRequest}}

func c19One(c *Ctx, cw *c19World, cs c19Case) {
	c.R.Eval()
	c.Cur(cs)
	var clear []byte
	fmt.Sscanf(cs.Seen, "%x", &clear)
	cw.ensure(c, cs.ServerKey)
	h := ref.Header{Version: 0xc0, Type: cs.Type, Seq: cs.Seq, Flags: cs.Flags, Session: cs.Session, Length: uint32(len(clear))}
	wire := ref.Packet(h, []byte(cs.ClientKey), clear)
	// what the server will see after applying its own pad
	seen := ref.Obfuscate(h, []byte(cs.ServerKey), wire[12:])
	if h.Flags&1 != 0 {
		seen = clear
	}
	// classify
	allInconsistent := true
	for _, l := range ref.LayoutsByType[int(cs.Type)] {
		if _, cl := l.Decode(seen); cl != ref.Inconsistent {
			allInconsistent = false
		}
	}
	exactRequest := false
	for _, l := range requestLayouts[cs.Type] {
		if m, cl := l.Decode(seen); cl == ref.Exact && validBySpec(specByName(l.Name), m) {
			exactRequest = true
		}
	}
	class := "either"
	switch {
	case h.Flags&1 != 0 || exactRequest:
		class = "must-not"
	case allInconsistent:
		class = "must"
	}
	c.R.Count("class-"+class, 1)
	if class != "either" {
		c.R.Distinct(evid.Hash(cs.Type, seen, class))
	}
	if cs.Behind != "" && class == "must" {
		nh := ref.Header{Version: 0xc0, Type: cs.Type, Seq: 1, Session: cs.Session + 1}
		next := ref.Packet(nh, []byte(cs.ServerKey), minimalRequest(cs.Type))
		switch cs.Behind {
		case "byte":
			wire = append(wire, 0xc0)
		case "header":
			wire = append(wire, next[:12]...)
		case "packet":
			wire = append(wire, next...)
		}
	}
	cw.rec.take()
	closed, err := cw.w.Deliver(cw.conn, wire)
	if err != nil {
		c.Abort("hang", err.Error(), cs)
	}
	inv := cw.rec.take()
	out := cw.conn.Take()
	pk, rest := srvx.ParseStream(out)
	fail := func(what string) {
		c.R.Violate(class+"/"+firstWord(what), fmt.Sprintf("type %d, class %s, server sees %s: %s", cs.Type, class, hx(seen), what), cs)
	}
	signalled := func() string {
		// a complete "signalled" behaviour: no handler, one error packet of the type, closed
		if len(inv) != 0 {
			return "handler invoked"
		}
		if !closed {
			return "connection left open"
		}
		if len(pk) != 1 || len(rest) != 0 {
			return fmt.Sprintf("%d packets and %d stray bytes written", len(pk), len(rest))
		}
		rh := pk[0].H
		if rh.Type != cs.Type || !rh.Valid() || rh.Session != cs.Session {
			return fmt.Sprintf("error packet header %+v does not match the request's type/session", rh)
		}
		body := ref.Obfuscate(rh, []byte(cs.ServerKey), pk[0].Body)
		m, cl := replyLayout[cs.Type].Decode(body)
		if cl != ref.Exact || m.N["status"] != errorStatus[cs.Type] {
			return fmt.Sprintf("error packet body is not an ERROR-status reply of type %d under the server's key: %s", cs.Type, hx(body))
		}
		return ""
	}
	processed := func() string {
		if len(inv) != 1 {
			return fmt.Sprintf("%d handler invocations", len(inv))
		}
		if closed {
			return "connection closed"
		}
		if len(out) != 0 {
			return "bytes written although the handler does not reply"
		}
		if string(inv[0].Body) != string(seen) {
			return "handler received different bytes than the deobfuscated body"
		}
		return ""
	}
	switch class {
	case "must":
		if m := signalled(); m != "" {
			fail("key mismatch not signalled as required: " + m)
		}
	case "must-not":
		if m := processed(); m != "" {
			fail("well-formed or clear request not processed normally: " + m)
		}
	default:
		if a, b := signalled(), processed(); a != "" && b != "" {
			fail("neither a complete signalled nor a complete processed behaviour: " + a + " / " + b)
		}
	}
	if c.R.Evaluations%7001 == 0 {
		c.R.SampleCap(6, map[string]interface{}{"case": cs, "class": class, "handler_invoked": len(inv), "closed": closed, "bytes_out": len(out)})
	}
}

func c19Corpus() map[byte][][]byte {
	out := map[byte][][]byte{}
	for _, s := range layoutSpecs {
		var typ byte
		switch s.L.Name {
		case "AuthenStart", "AuthenContinue":
			typ = 1
		case "AuthorRequest":
			typ = 2
		case "AcctRequest":
			typ = 3
		default:
			continue
		}
		var doms [][]int
		for range s.Texts {
			doms = append(doms, []int{0, 1, 7})
		}
		sizes := make([]int, len(doms))
		for i := range doms {
			sizes[i] = 3
		}
		shapes := []argShape{nil}
		if s.HasArgs {
			shapes = []argShape{nil, {2}, {5, 9, 33}}
			if s.ArgMin == 0 {
				shapes = append(shapes, argShape{0, 4})
			}
		}
		vals := make([]int, len(s.Enums))
		for i, e := range s.Enums {
			vals[i] = e.Valid[len(e.Valid)/2]
		}
		for _, sh := range shapes {
			forEachCombo(sizes, func(idx []int) bool {
				lens := make([]int, len(idx))
				for i := range idx {
					lens[i] = doms[i][idx[i]]
				}
				b, _ := s.L.Encode(build(s, vals, lens, sh))
				out[typ] = append(out[typ], b)
				return true
			})
		}
	}
	return out
}

func c19Run(c *Ctx) {
	cw := &c19World{}
	defer func() {
		if cw.w != nil {
			cw.w.Stop()
		}
	}()
	job := 0
	skey := "server-key-19"
	lv := []byte{0, 1, 2, 255}
	// (i) seen-bytes enumeration
	for _, typ := range []byte{1, 2, 3} {
		for a0 := 0; a0 < 4; a0++ {
			for a1 := 0; a1 < 4; a1++ {
				job++
				if !c.Mine(job) {
					continue
				}
				sizes := []int{4, 4, 4, 4, 4, 4, 4}
				if c.Quick {
					sizes = []int{4, 4, 4, 4, 4, 2, 2}
				}
				forEachCombo(sizes, func(idx []int) bool {
					for trail := 0; trail <= 3; trail++ {
						b := []byte{lv[a0], lv[a1], lv[idx[0]], lv[idx[1]], lv[idx[2]], lv[idx[3]], lv[idx[4]], lv[idx[5]], lv[idx[6]]}
						b = append(b, fill('t', trail, true)...)
						c19One(c, cw, c19Case{Type: typ, Seen: fmt.Sprintf("%x", b), ClientKey: skey, ServerKey: skey, Session: 0x19, Seq: 1})
						if trail == 3 {
							// the same bytes sent in the clear: never a key mismatch, whatever they look like
							c19One(c, cw, c19Case{Type: typ, Seen: fmt.Sprintf("%x", b), ClientKey: "other", ServerKey: skey, Session: 0x19, Seq: 1, Flags: 1})
						}
					}
					return !c.Expired()
				})
			}
		}
		// 16-bit length pairs at every 2+2 position of the reply/continue layouts
		job++
		if c.Mine(job) {
			l16 := []int{0, 1, 2, 256, 65535}
			for _, a := range l16 {
				for _, b := range l16 {
					for _, lead := range []int{0, 1, 2} {
						for _, tail := range []int{0, 1, 2, 5, 300} {
							x := make([]byte, lead)
							for i := range x {
								x[i] = 1
							}
							x = append(x, byte(a>>8), byte(a), byte(b>>8), byte(b), 1)
							x = append(x, fill('q', tail, true)...)
							c19One(c, cw, c19Case{Type: typ, Seen: fmt.Sprintf("%x", x), ClientKey: skey, ServerKey: skey, Session: 0x1919, Seq: 3})
						}
					}
				}
			}
		}
	}
	// (ii) key pairs and (iii) right key / clear
	long := strings.Repeat("0123456789abcdef", 9) // 144 octets
	keys := []string{"", "a", "fooman", "server-key-19", "a-much-longer-shared-secret-of-40-bytes!!", long, long[:122], long[:130] + "X"}
	pads := []struct {
		sid uint32
		seq byte
	}{{1, 1}, {0xdeadbeef, 3}, {0x7fffffff, 253}}
	corpus := c19Corpus()
	for _, sk := range keys {
		for _, ck := range keys {
			job++
			if !c.Mine(job) {
				continue
			}
			for typ, bodies := range corpus {
				for _, b := range bodies {
					for _, p := range pads {
						c19One(c, cw, c19Case{Type: typ, Seen: fmt.Sprintf("%x", b), ClientKey: ck, ServerKey: sk, Session: p.sid, Seq: p.seq})
						if ck == keys[0] {
							// in the clear: the server key must not matter
							c19One(c, cw, c19Case{Type: typ, Seen: fmt.Sprintf("%x", b), ClientKey: ck, ServerKey: sk, Session: p.sid, Seq: p.seq, Flags: 1})
						}
					}
				}
			}
		}
	}
	// (v) a pipelining client: the mismatching packet has company in its segment - the signal is the same
	for _, typ := range []byte{1, 2, 3} {
		for _, behind := range []string{"byte", "header", "packet"} {
			job++
			if !c.Mine(job) {
				continue
			}
			for _, seq := range []byte{1, 3, 253} {
				c19One(c, cw, c19Case{Type: typ, Seen: "ffffffffffffffffff", ClientKey: skey, ServerKey: skey, Session: 0x1905, Seq: seq, Behind: behind})
				for _, b := range corpus[typ][:3] {
					c19One(c, cw, c19Case{Type: typ, Seen: fmt.Sprintf("%x", b), ClientKey: "fooman", ServerKey: skey, Session: 0x1905, Seq: seq, Behind: behind})
				}
			}
		}
	}
	// (iv) every client sequence number, first and last included: inconsistent bytes, a corpus request under a wrong key,
	// under the right key and in the clear
	for _, typ := range []byte{1, 2, 3} {
		for seq := 1; seq <= 255; seq += 2 {
			job++
			if !c.Mine(job) {
				continue
			}
			for _, sid := range []uint32{0x19, 0xffffffff} {
				c19One(c, cw, c19Case{Type: typ, Seen: "ffffffffffffffffff", ClientKey: skey, ServerKey: skey, Session: sid, Seq: byte(seq)})
				for _, b := range corpus[typ][:3] {
					c19One(c, cw, c19Case{Type: typ, Seen: fmt.Sprintf("%x", b), ClientKey: "fooman", ServerKey: skey, Session: sid, Seq: byte(seq)})
					c19One(c, cw, c19Case{Type: typ, Seen: fmt.Sprintf("%x", b), ClientKey: skey, ServerKey: skey, Session: sid, Seq: byte(seq)})
					c19One(c, cw, c19Case{Type: typ, Seen: fmt.Sprintf("%x", b), ClientKey: "fooman", ServerKey: skey, Session: sid, Seq: byte(seq), Flags: 1})
					if seq == 1 || seq == 3 || seq == 255 {
						// the unencrypted flag is one bit of the octet: whatever else is set, the body is in the clear
						for _, fl := range []byte{0x03, 0x05, 0x09, 0x11, 0x81, 0xff} {
							c19One(c, cw, c19Case{Type: typ, Seen: fmt.Sprintf("%x", b), ClientKey: "fooman", ServerKey: skey, Session: sid, Seq: byte(seq), Flags: fl})
						}
					}
				}
			}
		}
	}
}

func c19Replay(c *Ctx, raw json.RawMessage) {
	var cs c19Case
	if err := json.Unmarshal(raw, &cs); err != nil {
		panic(err)
	}
	cw := &c19World{}
	c19One(c, cw, cs)
	if cw.w != nil {
		cw.w.Stop()
	}
}
