package checks

import (
	"bytes"
	"encoding/json"
	"fmt"
	"io"
	"runtime"
	"sync"

	tq "github.com/facebookincubator/tacquito"

	"verif/mc/enum"
	"verif/mc/evid"
	"verif/mc/ref"
	"verif/mc/simnet"
	"verif/mc/srvx"
)

// C05: packet framing is independent of how the TCP stream is segmented.

func init() {
	Registry["C05"] = &Check{
		Spec: func(tier string) evid.Spec {
			k := 2
			if tier != "quick" {
				k = 3
			}
			return evid.Spec{ID: "C05", Level: "model_checking", Exhaustive: true,
				Rule: fmt.Sprintf("streams of 1-3 packets (body lengths from {0,1,5,83,95,96,107,108,300}, mixed types/sessions/versions; streams with a 65536-byte body, and streams whose first body is 5000 / 4097 (thorough: 8191, 20000, 33000) bytes with small packets behind it) delivered to the real server loop (also with the single-connect flag on every packet and a receiver that answers each one, for cut sets of size <= 1) and to the real Client.Send "+
					"through a scripted connection whose every Read returns exactly one chunk; all cut sets of size <= %d (size-%d sets and the 64 KiB stream restricted to a +/-14 byte window around header/body boundaries), the two extreme "+
					"segmentations, and every EOF / read-timeout position combined with <= 1 cut; oversize headers (65537, 2^31-1, 2^32-1) under every cut of the 12 header bytes. Oracle: the receiver sees exactly the sent "+
					"(header, cleartext) sequence, nothing for an incomplete packet, an error and close on EOF/timeout mid-packet, refusal of an oversize announcement with no further Read and < 1 MiB allocated. "+
					"states = distinct (stream, receiver) pairs; transitions = chunks delivered; traces = executions that agreed; distinct_nontrivial = distinct (stream, cut set, fault) with at least one cut or fault", k, k),
				Extra: map[string]interface{}{"max_cuts": k}}
		},
		Workers: constInt(16, 16),
		Run:     c05Run,
		Replay:  c05Replay,
	}
}

var c05Key = []byte("framing-key")

// shapedBody builds an n-byte cleartext that the receiver's key-mismatch heuristic accepts for the header type.
func shapedBody(typ byte, n int) []byte {
	switch typ {
	case 1:
		return replyShaped(n)
	case 2:
		b := fill('Z', n, true)
		if n >= 6 {
			rest := n - 6
			sm := rest
			if sm > 65535 {
				sm = 65535
			}
			b[0], b[1] = 1, 0
			b[2], b[3] = byte(sm>>8), byte(sm)
			b[4], b[5] = byte((rest-sm)>>8), byte(rest-sm)
		}
		return b
	default:
		b := fill('Y', n, true)
		if n >= 5 {
			rest := n - 5
			sm := rest
			if sm > 65535 {
				sm = 65535
			}
			b[0], b[1] = byte(sm>>8), byte(sm)
			b[2], b[3] = byte((rest-sm)>>8), byte(rest-sm)
			b[4] = 1
		}
		return b
	}
}

type c05Pkt struct {
	H     ref.Header
	Clear []byte
}

// c05Stream builds the packets of a stream from body lengths. client=false: requests (odd seq 1) for the
// server; client=true: replies for Client.Send.
func c05Stream(lens []int, client bool, sc ...bool) (pk []c05Pkt, wire []byte) {
	single := len(sc) > 0 && sc[0]
	for i, n := range lens {
		typ := byte(1 + i%3)
		ver := byte(0xc0 + i%2)
		h := ref.Header{Version: ver, Type: typ, Seq: 1, Flags: 0, Session: uint32(0x100 + i), Length: uint32(n)}
		if client {
			h.Seq = byte(4 + 2*i)
		}
		if i == 2 {
			h.Flags = 1 // one packet in the clear
		}
		if single {
			h.Flags |= 4 // single-connect: the client multiplexes its sessions on this connection
		}
		clear := shapedBody(typ, n)
		pk = append(pk, c05Pkt{H: h, Clear: clear})
		wire = append(wire, ref.Packet(h, c05Key, clear)...)
	}
	return
}

type c05Case struct {
	Lens   []int  `json:"body_lens"`
	Client bool   `json:"client"`
	Cuts   []int  `json:"cuts"`            // cut after byte index (1-based positions)
	Fault  string `json:"fault,omitempty"` // "", eof, timeout
	At     int    `json:"fault_at,omitempty"`
	Over   uint32 `json:"oversize,omitempty"`
	// SC: every packet carries the single-connect flag and the receiving handler answers each one (so that whatever
	// the server does once a connection is in single-connect mode is in force while the rest of the stream arrives)
	SC bool `json:"single_connect_replying,omitempty"`
}

// recorder handler for the server receiver
type c05Rec struct {
	mu    sync.Mutex
	seen  []tq.Request
	reply bool
}

func (r *c05Rec) Handle(resp tq.Response, req tq.Request) {
	r.mu.Lock()
	r.seen = append(r.seen, tq.Request{Header: req.Header, Body: append([]byte{}, req.Body...)})
	reply := r.reply
	r.mu.Unlock()
	if reply {
		resp.Reply(tq.NewAuthenReply(tq.SetAuthenReplyStatus(tq.AuthenStatusFail)))
	}
}

func (r *c05Rec) setReply(v bool) {
	r.mu.Lock()
	r.reply = v
	r.mu.Unlock()
}

func (r *c05Rec) take() []tq.Request {
	r.mu.Lock()
	defer r.mu.Unlock()
	s := r.seen
	r.seen = nil
	return s
}

func chunksOf(wire []byte, cuts []int) [][]byte {
	var out [][]byte
	prev := 0
	for _, c := range cuts {
		if c <= prev || c >= len(wire) {
			continue
		}
		out = append(out, wire[prev:c])
		prev = c
	}
	out = append(out, wire[prev:])
	return out
}

func sameHeader(h tq.Header, w ref.Header) bool {
	return h.Version.MajorVersion == w.Version>>4 && h.Version.MinorVersion == w.Version&0xf && byte(h.Type) == w.Type &&
		uint16(h.SeqNo) == uint16(w.Seq) && byte(h.Flags) == w.Flags|map[bool]byte{true: 4, false: 0}[w.Seq == 2] && uint32(h.SessionID) == w.Session && h.Length == w.Length
}

// complete returns how many packets of pk are fully contained in the first n bytes of the stream.
func completeIn(pk []c05Pkt, n int) int {
	off, k := 0, 0
	for _, p := range pk {
		off += 12 + len(p.Clear)
		if off <= n {
			k++
		}
	}
	return k
}

func c05Server(c *Ctx, w *srvx.World, rec *c05Rec, cs c05Case) {
	c.R.Eval()
	c.Cur(cs)
	fail := func(what string) {
		c.R.ViolateMin("server/"+firstWord(what), fmt.Sprintf("server receiver: %s; case %+v", what, cs), cs, len(cs.Cuts)+1)
	}
	pk, wire := c05Stream(cs.Lens, false, cs.SC)
	rec.setReply(cs.SC)
	defer rec.setReply(false)
	limit := len(wire)
	if cs.Fault != "" {
		limit = cs.At
	}
	conn, err := w.Open(srvx.Addr4(10, 5, 5, 5, 5555))
	if err != nil {
		c.Abort("hang", err.Error(), cs)
	}
	rec.take()
	closed := false
	for _, ch := range chunksOf(wire[:limit], cs.Cuts) {
		if len(ch) == 0 {
			continue
		}
		c.R.Trans(1)
		closed, err = w.Deliver(conn, ch)
		if err != nil {
			c.Abort("hang", err.Error(), cs)
		}
		if closed {
			break
		}
	}
	switch cs.Fault {
	case "eof":
		closed, err = w.DeliverErr(conn, io.EOF)
	case "timeout":
		closed, err = w.DeliverErr(conn, simnet.TimeoutErr{})
	}
	if err != nil {
		c.Abort("hang", err.Error(), cs)
	}
	seen := rec.take()
	want := completeIn(pk, limit)
	if len(seen) != want {
		fail(fmt.Sprintf("handler saw %d packets, %d were completely delivered", len(seen), want))
	} else {
		for i := range seen {
			if !sameHeader(seen[i].Header, pk[i].H) || !bytes.Equal(seen[i].Body, pk[i].Clear) {
				fail(fmt.Sprintf("packet %d differs from what was sent: header %+v body %s", i, seen[i].Header, hx(seen[i].Body)))
				break
			}
		}
	}
	if cs.Fault != "" {
		if !closed {
			fail("connection not closed after " + cs.Fault)
		}
	} else if closed {
		fail("connection closed although every packet was well-formed")
	}
	if out := conn.Take(); len(out) != 0 && !cs.SC {
		fail("bytes written although the handler never replies")
	}
	if !conn.Closed() {
		conn.FeedEOF()
	}
	c.R.Trace()
}

func c05Client(c *Ctx, cs c05Case) {
	c.R.Eval()
	fail := func(what string) {
		c.R.ViolateMin("client/"+firstWord(what), fmt.Sprintf("Client.Send receiver: %s; case %+v", what, cs), cs, len(cs.Cuts)+1)
	}
	pk, wire := c05Stream(cs.Lens, true)
	limit := len(wire)
	if cs.Fault != "" {
		limit = cs.At
	}
	conn := simnet.NewConn(nil, srvx.Addr4(10, 0, 0, 9, 49))
	for _, ch := range chunksOf(wire[:limit], cs.Cuts) {
		conn.Feed(ch)
		c.R.Trans(1)
	}
	switch cs.Fault {
	case "eof":
		conn.FeedEOF()
	case "timeout":
		conn.FeedErr(simnet.TimeoutErr{})
	default:
		conn.FeedEOF() // after the stream
	}
	cl := tq.VerifNewClient(conn, c05Key)
	want := completeIn(pk, limit)
	var kept []*tq.Packet // what Send returned belongs to the caller: it is looked at again when the stream is over
	defer func() {
		for i, g := range kept {
			if g == nil || g.Header == nil || !sameHeader(*g.Header, pk[i].H) || !bytes.Equal(g.Body, pk[i].Clear) {
				fail(fmt.Sprintf("the packet Send %d returned was intact when it was returned and differs from what the peer wrote after %d later Send calls", i, len(kept)-1-i))
				return
			}
		}
	}()
	for i := range pk {
		req := tq.NewPacket(tq.SetPacketHeader(implHeader(ref.Header{Version: 0xc0, Type: 1, Seq: byte(3 + 2*i), Session: uint32(0x100 + i)})), tq.SetPacketBody(minimalRequest(1)))
		var got *tq.Packet
		var err error
		pn, hung := guarded(func() { got, err = cl.Send(req) })
		if hung {
			c.Abort("hang-client", "Client.Send did not return", cs)
		}
		if pn != "" {
			fail("panic " + pn)
			return
		}
		if i < want {
			if err != nil {
				fail(fmt.Sprintf("Send %d returned error %v although its answer was completely delivered", i, err))
				return
			}
			if got == nil || got.Header == nil || !sameHeader(*got.Header, pk[i].H) || !bytes.Equal(got.Body, pk[i].Clear) {
				fail(fmt.Sprintf("Send %d returned a packet that differs from what the peer wrote", i))
				return
			}
			kept = append(kept, got)
		} else {
			if err == nil {
				fail(fmt.Sprintf("Send %d returned a packet although only %d answers were completely delivered (shortened or invented packet)", i, want))
			}
			break
		}
	}
	c.R.Trace()
}

// c05Oversize: header announcing more than 65536 bytes, under every cut of the 12 header octets.
func c05Oversize(c *Ctx, w *srvx.World, rec *c05Rec, announced uint32, cuts []int, client bool) {
	c.R.Eval()
	cs := c05Case{Over: announced, Cuts: cuts, Client: client}
	c.Cur(cs)
	h := ref.Header{Version: 0xc0, Type: 1, Seq: 1, Session: 77, Length: announced}
	if client {
		h.Seq = 2
	}
	wire := h.Encode()
	var before, after runtime.MemStats
	runtime.ReadMemStats(&before)
	if client {
		conn := simnet.NewConn(nil, srvx.Addr4(10, 0, 0, 9, 49))
		for _, ch := range chunksOf(wire, cuts) {
			conn.Feed(ch)
		}
		// no more bytes are queued: a reader that waits for the announced body parks forever
		cl := tq.VerifNewClient(conn, c05Key)
		req := tq.NewPacket(tq.SetPacketHeader(implHeader(ref.Header{Version: 0xc0, Type: 1, Seq: 1, Session: 77})), tq.SetPacketBody(minimalRequest(1)))
		var err error
		var got *tq.Packet
		done := make(chan struct{})
		go func() { got, err = cl.Send(req); close(done) }()
		idleOrDone := make(chan bool, 1)
		go func() { conn.WaitIdle(); idleOrDone <- true }()
		select {
		case <-done:
			if err == nil || got != nil {
				c.R.Violate("client/oversize-accepted", fmt.Sprintf("Client.Send accepted a header announcing %d body bytes", announced), cs)
			}
		case <-idleOrDone:
			select {
			case <-done:
				if err == nil {
					c.R.Violate("client/oversize-accepted", fmt.Sprintf("Client.Send accepted a header announcing %d body bytes", announced), cs)
				}
			default:
				c.R.Violate("client/oversize-waits", fmt.Sprintf("Client.Send waits for the body of a header announcing %d bytes instead of refusing it", announced), cs)
				conn.Close()
			}
		}
	} else {
		conn, err := w.Open(srvx.Addr4(10, 5, 5, 6, 5556))
		if err != nil {
			c.Abort("hang", err.Error(), cs)
		}
		rec.take()
		closed := false
		for _, ch := range chunksOf(wire, cuts) {
			closed, err = w.Deliver(conn, ch)
			if err != nil {
				c.Abort("hang", err.Error(), cs)
			}
		}
		if !closed {
			c.R.Violate("server/oversize-waits", fmt.Sprintf("server waits for the body of a header announcing %d bytes instead of refusing it after the 12th byte", announced), cs)
			conn.FeedEOF()
		}
		if n := len(rec.take()); n != 0 {
			c.R.Violate("server/oversize-handled", "a handler ran for an oversize announcement", cs)
		}
	}
	runtime.ReadMemStats(&after)
	if d := after.TotalAlloc - before.TotalAlloc; d > 1<<20 {
		c.R.Violate("oversize-alloc", fmt.Sprintf("%d bytes allocated while refusing an announcement of %d", d, announced), cs)
	}
	c.R.Trace()
}

// boundaryWindow returns the cut positions within +/-14 bytes of every header/body boundary.
func boundaryWindow(lens []int) map[int]bool {
	win := map[int]bool{}
	off := 0
	mark := func(p int) {
		for d := -14; d <= 14; d++ {
			win[p+d] = true
		}
	}
	for _, n := range lens {
		mark(off)
		mark(off + 12)
		off += 12 + n
	}
	mark(off)
	return win
}

func c05Run(c *Ctx) {
	rec := &c05Rec{}
	w := srvx.Start(srvx.FixedSecret{Key: c05Key, H: rec}, nil)
	defer w.Stop()
	maxCuts := tierPick(c.Quick, 2, 3)
	streams := [][]int{{0}, {1}, {5}, {83}, {95}, {96}, {107}, {108}, {300},
		{0, 0}, {1, 5}, {83, 95}, {95, 0}, {96, 1}, {107, 108}, {300, 5}, {5, 300},
		{0, 1, 5}, {83, 0, 96}, {95, 107, 5}, {1, 300, 0}}
	// large bodies between the usual buffer sizes, with small packets behind them in the same segment
	big := [][]int{{65536, 5}, {5, 65536}, {5000, 30, 200}, {4097, 5}}
	if !c.Quick {
		big = append(big, []int{8191, 0, 5}, []int{20000, 83}, []int{33000, 12, 1})
	}
	unit := int64(0)
	mine := func() bool { unit++; return c.N <= 1 || int(unit%int64(c.N)) == c.K }

	runBoth := func(cs c05Case) {
		if len(cs.Cuts) > 0 || cs.Fault != "" {
			c.R.Distinct(evid.Hash(fmt.Sprint(cs.Lens), fmt.Sprint(cs.Cuts), cs.Fault, cs.At))
		}
		c05Server(c, w, rec, cs)
		if len(cs.Cuts) <= 1 && cs.Fault == "" && len(cs.Lens) > 1 {
			sc := cs
			sc.SC = true
			c05Server(c, w, rec, sc)
		}
		cc := cs
		cc.Client = true
		c05Client(c, cc)
		if c.R.Evaluations%9001 < 2 {
			c.R.SampleCap(6, cs)
		}
	}

	for si, lens := range append(append([][]int{}, streams...), big...) {
		_, wire := c05Stream(lens, false)
		n := len(wire)
		isBig := si >= len(streams)
		win := boundaryWindow(lens)
		c.R.State(evid.Hash("stream", fmt.Sprint(lens)))
		// (1) all cut sets of size <= maxCuts; position p means "cut after byte p"
		positions := []int{}
		for p := 1; p < n; p++ {
			if isBig && !win[p] {
				continue
			}
			positions = append(positions, p)
		}
		two := 2
		if isBig && c.Quick {
			two = 1
		}
		enum.Explore(enum.Opts{MaxDev: two}, func(ch *enum.C) {
			var cuts []int
			for _, p := range positions {
				if ch.Dev(2) == 1 {
					cuts = append(cuts, p)
				}
			}
			if !mine() || c.Expired() {
				return
			}
			runBoth(c05Case{Lens: lens, Cuts: cuts})
		})
		if maxCuts >= 3 {
			// size-3 cut sets, all three cuts inside the boundary window
			var wp []int
			for _, p := range positions {
				if win[p] {
					wp = append(wp, p)
				}
			}
			for i := 0; i < len(wp); i++ {
				for j := i + 1; j < len(wp); j++ {
					for k := j + 1; k < len(wp); k++ {
						if isBig && (k-i) > 40 {
							continue // 64 KiB stream: triples within one neighbourhood only
						}
						if !mine() || c.Expired() {
							continue
						}
						runBoth(c05Case{Lens: lens, Cuts: []int{wp[i], wp[j], wp[k]}})
					}
				}
			}
		}
		// (2) extreme segmentation: one byte per read
		if !isBig && mine() {
			all := make([]int, 0, n)
			for p := 1; p < n; p++ {
				all = append(all, p)
			}
			runBoth(c05Case{Lens: lens, Cuts: all})
		}
		// (3) EOF / timeout at every position with <= 1 cut
		for at := 0; at < n; at++ {
			if isBig && !win[at] {
				continue
			}
			for _, f := range []string{"eof", "timeout"} {
				if mine() {
					runBoth(c05Case{Lens: lens, Fault: f, At: at})
				}
				for cut := 1; cut < at; cut++ {
					if (isBig || n > 150) && !win[cut] {
						continue
					}
					if mine() {
						runBoth(c05Case{Lens: lens, Cuts: []int{cut}, Fault: f, At: at})
					}
				}
			}
		}
	}
	// (4) oversize announcements under every cut set (<=2 cuts) of the 12 header bytes
	for _, over := range []uint32{65537, 0x7fffffff, 0xffffffff} {
		for _, client := range []bool{false, true} {
			enum.Explore(enum.Opts{MaxDev: 2}, func(ch *enum.C) {
				var cuts []int
				for p := 1; p < 12; p++ {
					if ch.Dev(2) == 1 {
						cuts = append(cuts, p)
					}
				}
				if !mine() {
					return
				}
				c.R.Distinct(evid.Hash("over", over, client, fmt.Sprint(cuts)))
				c05Oversize(c, w, rec, over, cuts, client)
			})
		}
	}
}

func c05Replay(c *Ctx, raw json.RawMessage) {
	var cs c05Case
	if err := json.Unmarshal(raw, &cs); err != nil {
		panic(err)
	}
	rec := &c05Rec{}
	w := srvx.Start(srvx.FixedSecret{Key: c05Key, H: rec}, nil)
	defer w.Stop()
	if cs.Over != 0 {
		c05Oversize(c, w, rec, cs.Over, cs.Cuts, cs.Client)
		return
	}
	if cs.Client {
		c05Client(c, cs)
	} else {
		c05Server(c, w, rec, cs)
	}
}
