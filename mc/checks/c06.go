package checks

import (
	"encoding/json"
	"fmt"
	"strings"

	tq "github.com/facebookincubator/tacquito"

	"verif/mc/evid"
	"verif/mc/ref"
	"verif/mc/srvx"
)

// C06: replies mirror the request (session, type, version, flag octet, seq+1 / 1 on RESTART,
// true length, obfuscated iff the request was); nothing is written for request 255.

func init() {
	Registry["C06"] = &Check{
		Spec: func(tier string) evid.Spec {
			return evid.Spec{ID: "C06", Level: "model_checking", Exhaustive: true,
				Rule: "plane 1: every flag octet x every odd sequence number for one (type, minor, session); plane 2: type{1,2,3} x minor{0,1} x 6 session ids x flags{0,1,4,5,0xfe,0xff} x seq{1,3,127,253,255}; " +
					"each crossed with reply bodies {authentication minimal, RESTART, 300 B, authorization with arguments, accounting, 65536-byte body}; plane 3: multi-packet chains of depth <= 3 " +
					"(seq s, s+2, s+4 via registered continuations, s in {1,3,249,251,253}) over type x minor x flags{0,1,4,0xff}; plane 5: typed replies sweeping every value of their leading octets (accounting server_msg/data lengths 256k+3, k, authorization argument counts 0..255, every authentication status x sizes); plane 9: a handler that keeps its Response and answers only after another request (other session, type, version, flag octet) has been read and answered on the connection - the late reply mirrors its own request; plane 8: a client that stops reading before its first reply is written and resumes later (a write against an armed write deadline ends in a timeout after a partial write, as on a socket), then a second request: the stream stays a sequence of whole, correctly announced packets; plane 7: handlers whose first one or two replies cannot be encoded (nothing written) and that fall back to another reply, alone and inside continued exchanges, type x minor x flags{0,1,4} x seq{1,3,251,253,255}; plane 6: three requests on one connection (a continued session and another session) over all triples of flag octets {0,4,1,5,0xfa}. Raw reply octets are compared with the model: same version octet, type, flag octet, " +
					"session id, seq+1 (1 on RESTART), length field == bytes that follow, body == cleartext XOR reference pad iff the request's unencrypted bit was clear, nothing for request 255, never seq 0. " +
					"states = distinct (request header class, reply kind) model states; transitions = requests executed; traces = chains fully agreed",
				Assumptions: []string{"handlers are scripted (library flavour); the reference server's own handlers are covered by C07"}}
		},
		Workers: constInt(16, 16),
		Run:     c06Run,
		Replay:  c06Replay,
	}
}

type c06Event struct {
	H     ref.Header `json:"h"`
	Reply string     `json:"reply"` // min, restart, 300, author, acct, max
	Next  bool       `json:"next"`
	// Fallback: the handler first tries this many replies that cannot be encoded, then sends Reply
	Fallback int `json:"fallback,omitempty"`
}

func c06Body(kind string) tq.EncoderDecoder {
	switch kind {
	case "min":
		return tq.NewAuthenReply(tq.SetAuthenReplyStatus(tq.AuthenStatusPass))
	case "restart":
		return tq.NewAuthenReply(tq.SetAuthenReplyStatus(tq.AuthenStatusRestart), tq.SetAuthenReplyServerMsg("again"))
	case "300":
		return tq.NewAuthenReply(tq.SetAuthenReplyStatus(tq.AuthenStatusGetData), tq.SetAuthenReplyServerMsg(string(fill('m', 294, true))))
	case "author":
		return tq.NewAuthorReply(tq.SetAuthorReplyStatus(tq.AuthorStatusPassRepl), tq.SetAuthorReplyArgs("priv-lvl=15", "shell:roles*admin"), tq.SetAuthorReplyServerMsg("ok"))
	case "acct":
		return tq.NewAcctReply(tq.SetAcctReplyStatus(tq.AcctReplyStatusSuccess), tq.SetAcctReplyServerMsg("logged"))
	case "max":
		return rawBody{replyShaped(65536)}
	}
	// "acct:<n>" accounting reply with an n-byte server message; "acctd:<n>" with n bytes of data;
	// "authorargs:<n>" authorization reply with n arguments; "authen:<status>:<n>" authentication reply
	var n, st int
	if _, err := fmt.Sscanf(kind, "acct:%d", &n); err == nil {
		return tq.NewAcctReply(tq.SetAcctReplyStatus(tq.AcctReplyStatusSuccess), tq.SetAcctReplyServerMsg(string(fill('m', n, true))))
	}
	if _, err := fmt.Sscanf(kind, "acctd:%d", &n); err == nil {
		return tq.NewAcctReply(tq.SetAcctReplyStatus(tq.AcctReplyStatusError), tq.SetAcctReplyData(tq.AcctData(fill('d', n, true))))
	}
	if _, err := fmt.Sscanf(kind, "authorargs:%d", &n); err == nil {
		args := make([]string, n)
		for i := range args {
			args[i] = "a=" + string(rune('a'+i%26))
		}
		return tq.NewAuthorReply(tq.SetAuthorReplyStatus(tq.AuthorStatusPassAdd), tq.SetAuthorReplyArgs(args...))
	}
	if _, err := fmt.Sscanf(kind, "authen:%d:%d", &st, &n); err == nil {
		return tq.NewAuthenReply(tq.SetAuthenReplyStatus(tq.AuthenStatus(st)), tq.SetAuthenReplyServerMsg(string(fill('m', n, false))))
	}
	panic(kind)
}

var c06Key = []byte("c06 shared secret")

func c06Chain(c *Ctx, w *lworld, chain []c06Event) {
	w.reset()
	lc, err := w.open()
	if err != nil {
		c.Abort("hang", err.Error(), chain)
	}
	defer func() {
		if !lc.C.Closed() {
			lc.C.FeedEOF()
		}
	}()
	c.R.Eval()
	c.Cur(chain)
	for i, e := range chain {
		act := lAction{Action: ref.Action{Reply: true, Restart: e.Reply == "restart" || strings.HasPrefix(e.Reply, "authen:6:"), Next: e.Next}, Body: c06Body(e.Reply), FailFirst: e.Fallback}
		v := lc.M.Step(e.H, act.Action)
		r, err := w.deliver(lc, ref.Packet(e.H, w.Key, minimalRequest(e.H.Type)), act)
		if err != nil {
			c.Abort("hang", fmt.Sprintf("%v on %+v", err, e), chain[:i+1])
		}
		c.R.Trans(1)
		w.mu.Lock()
		unjudged := w.unjudged
		w.mu.Unlock()
		if unjudged {
			c.R.Count("steps_not_judged_unencodable_body_was_encoded", 1)
			return
		}
		c.R.State(evid.Hash(e.H.Type, e.H.Version, e.H.Flags&1, e.H.Seq == 255, e.Reply, e.Next, i, e.Fallback))
		if m := compareStep(lc, w.Key, e.H, act, v, r); m != "" {
			key := digits.ReplaceAllString(strings.SplitN(m, "{", 2)[0], "#")
			c.R.ViolateMin(key+"/"+e.Reply, fmt.Sprintf("request %+v reply=%s next=%v (step %d of chain): %s", e.H, e.Reply, e.Next, i, m), chain[:i+1], i+1)
			return
		}
		// never a sequence number 0 or a wrapped one on the wire (already implied by the header comparison; stated explicitly)
		if pk, _ := parseOut(r.Out); len(pk) > 0 && (pk[0].H.Seq == 0 || (pk[0].H.Seq != 1 && pk[0].H.Seq != e.H.Seq+1)) {
			c.R.Violate("wrapped-seq", fmt.Sprintf("reply sequence %d to request %d", pk[0].H.Seq, e.H.Seq), chain[:i+1])
			return
		}
		if !lc.M.Open {
			break
		}
	}
	c.R.Trace()
}

func c06Run(c *Ctx) {
	w := newLWorld(c06Key, nil)
	defer w.W.Stop()
	replies := []string{"min", "restart", "300", "author", "acct", "max"}
	sessions := c03Sessions
	job := 0
	n := 0
	emit := func(chain []c06Event) {
		n++
		c06Chain(c, w, chain)
		if len(chain) > 1 || chain[0].H.Flags > 5 {
			c.R.Distinct(evid.Hash(fmt.Sprint(chain)))
		}
		if n%3001 == 0 {
			c.R.SampleCap(5, map[string]interface{}{"chain": chain})
		}
	}
	// plane 1: flags x odd seq
	for fl := 0; fl < 256; fl++ {
		job++
		if !c.Mine(job) {
			continue
		}
		for seq := 1; seq <= 255; seq += 2 {
			for _, rp := range replies {
				if rp == "max" && !(seq == 1 || seq == 253 || seq == 255) {
					continue
				}
				emit([]c06Event{{H: ref.Header{Version: 0xc1, Type: 1, Seq: byte(seq), Flags: byte(fl), Session: 0xcafe0001}, Reply: rp}})
			}
		}
	}
	// thorough: the full product flag octet x odd sequence number for every type and both minor versions
	if !c.Quick {
		for _, typ := range []byte{1, 2, 3} {
			for _, ver := range []byte{0xc0, 0xc1} {
				for fl := 0; fl < 256; fl++ {
					job++
					if !c.Mine(job) {
						continue
					}
					for seq := 1; seq <= 255; seq += 2 {
						for _, rp := range []string{"min", "author", "acct"} {
							emit([]c06Event{{H: ref.Header{Version: ver, Type: typ, Seq: byte(seq), Flags: byte(fl), Session: 0x80000001}, Reply: rp}})
						}
					}
				}
			}
		}
	}
	// plane 2: type x minor x session x flags x seq
	for _, typ := range []byte{1, 2, 3} {
		for _, ver := range []byte{0xc0, 0xc1} {
			for _, sid := range sessions {
				job++
				if !c.Mine(job) {
					continue
				}
				for _, fl := range []byte{0, 1, 4, 5, 0xfe, 0xff} {
					for _, seq := range []byte{1, 3, 127, 253, 255} {
						for _, rp := range replies {
							emit([]c06Event{{H: ref.Header{Version: ver, Type: typ, Seq: seq, Flags: fl, Session: sid}, Reply: rp}})
						}
					}
				}
			}
		}
	}
	// plane 4: handler-built packets whose length field lies
	job++
	if c.Mine(job) {
		for _, fl := range []byte{0, 1, 4} {
			for _, n := range []int{0, 5, 6, 300, 65536} {
				for _, lie := range []uint32{0, 1, uint32(n), uint32(n + 1), 65536} {
					c06Lie(c, w, fl, n, lie)
				}
			}
		}
	}
	// plane 5: every value of the leading octets of every typed reply body (status octets, argument counts and both
	// octets of 16-bit length fields), so that nothing in the reply path can key on body bytes
	{
		var kinds []string
		for k := 0; k < 256; k++ {
			kinds = append(kinds, fmt.Sprintf("acct:%d", 256*k+3), fmt.Sprintf("acct:%d", k), fmt.Sprintf("acctd:%d", 256*k+1), fmt.Sprintf("authorargs:%d", k))
		}
		for st := 1; st <= 7; st++ {
			for _, n := range []int{0, 6, 256 * 6, 256*6 + 6, 65530} {
				kinds = append(kinds, fmt.Sprintf("authen:%d:%d", st, n))
			}
		}
		for i, kd := range kinds {
			job++
			if !c.Mine(job) {
				continue
			}
			typ := byte(3)
			if strings.HasPrefix(kd, "authorargs") {
				typ = 2
			} else if strings.HasPrefix(kd, "authen:") {
				typ = 1
			}
			for _, seq := range []byte{1, 253, 255} {
				for _, fl := range []byte{0, 1} {
					emit([]c06Event{{H: ref.Header{Version: 0xc0, Type: typ, Seq: seq, Flags: fl, Session: uint32(0x50000 + i)}, Reply: kd}})
				}
			}
		}
	}
	// plane 6: several requests on ONE connection whose flag octets differ (same session through a continuation, and
	// different sessions): every reply mirrors its own request, whatever came before on the connection
	{
		fls := []byte{0, 4, 1, 5, 0xfa}
		for _, f1 := range fls {
			job++
			if !c.Mine(job) {
				continue
			}
			for _, f2 := range fls {
				for _, f3 := range fls {
					for _, typ := range []byte{1, 2} {
						h1 := ref.Header{Version: 0xc0, Type: typ, Seq: 1, Flags: f1, Session: 0x6001}
						h2 := ref.Header{Version: 0xc0, Type: typ, Seq: 3, Flags: f2, Session: 0x6001}
						h3 := ref.Header{Version: 0xc1, Type: typ, Seq: 1, Flags: f3, Session: 0x6002}
						emit([]c06Event{{H: h1, Reply: "min", Next: true}, {H: h2, Reply: "300"}, {H: h3, Reply: "min"}})
						emit([]c06Event{{H: h3, Reply: "min"}, {H: h1, Reply: "min", Next: true}, {H: h2, Reply: "min"}})
					}
				}
			}
		}
	}
	// plane 9: a handler that answers later, after another request has been read and answered
	for _, ta := range []byte{1, 2, 3} {
		job++
		if !c.Mine(job) {
			continue
		}
		for _, tb := range []byte{1, 2, 3} {
			for _, fa := range []byte{0, 1, 4} {
				for _, fb := range []byte{0, 1, 5} {
					for _, rp := range []string{"min", "300", "author"} {
						c06Deferred(c, w, ta, tb, fa, fb, rp)
					}
				}
			}
		}
	}
	// plane 8: a client that stops reading before its first reply and resumes later
	for _, typ := range []byte{1, 2, 3} {
		job++
		if !c.Mine(job) {
			continue
		}
		for _, ver := range []byte{0xc0, 0xc1} {
			for _, fl := range []byte{0, 1, 4} {
				for _, rp := range []string{"min", "300", "author", "max"} {
					for _, next := range []bool{false, true} {
						c06Slow(c, w, typ, ver, fl, rp, next)
					}
				}
			}
		}
	}
	// plane 7: the handler's first reply (or first two) cannot be encoded - nothing is written for it - and it falls back to
	// another one, as the reference authorizer does: the fallback is THE reply and mirrors the request like any other,
	// also when the exchange continues
	for _, typ := range []byte{1, 2, 3} {
		for _, fb := range []int{1, 2} {
			job++
			if !c.Mine(job) {
				continue
			}
			for _, ver := range []byte{0xc0, 0xc1} {
				for _, fl := range []byte{0, 1, 4} {
					for _, s := range []int{1, 3, 251, 253, 255} {
						for _, rp := range replies[:5] {
							h := ref.Header{Version: ver, Type: typ, Seq: byte(s), Flags: fl, Session: 0x7a11bac}
							emit([]c06Event{{H: h, Reply: rp, Fallback: fb}})
							if rp != "restart" && s+2 <= 255 {
								h2 := h
								h2.Seq = byte(s + 2)
								emit([]c06Event{{H: h, Reply: rp, Next: true, Fallback: fb}, {H: h2, Reply: "min"}})
								emit([]c06Event{{H: h, Reply: rp, Next: true}, {H: h2, Reply: "min", Fallback: fb}})
							}
						}
					}
				}
			}
		}
	}
	// plane 3: chains through continuations
	for _, typ := range []byte{1, 2, 3} {
		for _, ver := range []byte{0xc0, 0xc1} {
			for _, fl := range []byte{0, 1, 4, 0xff} {
				job++
				if !c.Mine(job) {
					continue
				}
				for _, s := range []int{1, 3, 249, 251, 253} {
					for _, r1 := range replies[:5] {
						for _, r2 := range replies {
							for _, r3 := range []string{"min", "author", "max"} {
								if r1 == "restart" || r2 == "restart" {
									continue // a RESTART ends the exchange; no continuation follows it
								}
								h := ref.Header{Version: ver, Type: typ, Seq: byte(s), Flags: fl, Session: 0x5e55104}
								h2, h3 := h, h
								h2.Seq, h3.Seq = byte(s+2), byte(s+4)
								if s+4 > 255 {
									emit([]c06Event{{H: h, Reply: r1, Next: true}, {H: h2, Reply: r2}})
									continue
								}
								emit([]c06Event{{H: h, Reply: r1, Next: true}, {H: h2, Reply: r2, Next: true}, {H: h3, Reply: r3}})
							}
						}
					}
				}
			}
		}
	}
}

// c06Slow: the client stops reading just before the reply to its first request is written and resumes later; meanwhile
// (and afterwards) the stream the server produces stays a sequence of whole packets, each announcing exactly the body
// bytes that follow it.
func c06Slow(c *Ctx, w *lworld, typ, ver, fl byte, reply string, next bool) {
	w.reset()
	lc, err := w.open()
	if err != nil {
		c.Abort("hang", err.Error(), nil)
	}
	defer func() {
		lc.C.ReleaseWrites()
		if !lc.C.Closed() {
			lc.C.FeedEOF()
		}
	}()
	cs := map[string]interface{}{"slow_reader": true, "type": typ, "version": ver, "flags": fl, "reply": reply, "next": next}
	c.R.Eval()
	c.Cur(cs)
	c.R.Distinct(evid.Hash("slow", typ, ver, fl, reply, next))
	h1 := ref.Header{Version: ver, Type: typ, Seq: 1, Flags: fl, Session: 0x510e}
	h2 := ref.Header{Version: ver, Type: typ, Seq: 3, Flags: fl, Session: 0x510e}
	if !next {
		h2 = ref.Header{Version: ver, Type: typ, Seq: 1, Flags: fl, Session: 0x510f}
	}
	w.setAction(lAction{Action: ref.Action{Reply: true, Next: next}, Body: c06Body(reply)})
	lc.C.StallWrites()
	lc.C.Feed(ref.Packet(h1, w.Key, minimalRequest(typ)))
	if _, ok := lc.C.WaitSettled(srvx.HangTimeout); !ok {
		c.Abort("hang", "the server neither wrote nor went idle for a client that stopped reading", cs)
	}
	lc.C.ReleaseWrites()
	if _, ok := lc.C.WaitIdleTimeout(srvx.HangTimeout); !ok {
		c.Abort("hang", "the server did not go idle after the client resumed reading", cs)
	}
	c.R.Trans(1)
	if !lc.C.Closed() {
		w.setAction(lAction{Action: ref.Action{Reply: true}, Body: c06Body("min")})
		if _, err := w.W.Deliver(lc.C, ref.Packet(h2, w.Key, minimalRequest(typ))); err != nil {
			c.Abort("hang", err.Error(), cs)
		}
		c.R.Trans(1)
	}
	out := lc.C.Take()
	pk, rest := parseOut(out)
	torn := lc.C.TornWrites()
	bad := ""
	switch {
	case len(rest) != 0:
		bad = fmt.Sprintf("%d stray bytes after the last whole packet", len(rest))
	case len(pk) > 0 && (pk[0].H.Session != h1.Session || pk[0].H.Seq != 2):
		bad = fmt.Sprintf("the first packet on the wire has header %+v, want the reply to the first request", pk[0].H)
	case len(pk) > 2:
		bad = fmt.Sprintf("%d packets for two requests", len(pk))
	case len(pk) == 2 && (pk[1].H.Session != h2.Session || pk[1].H.Seq != h2.Seq+1):
		bad = fmt.Sprintf("the second packet on the wire has header %+v, want the reply to the second request", pk[1].H)
	}
	if bad == "" && len(pk) >= 1 {
		body := c06BodyBytes(reply)
		want := ref.Header{Version: ver, Type: typ, Seq: 2, Flags: fl, Session: h1.Session, Length: uint32(len(body))}
		wb := body
		if fl&1 == 0 {
			wb = ref.Obfuscate(want, w.Key, body)
		}
		if pk[0].H != want || string(pk[0].Body) != string(wb) {
			bad = "the reply to the slow reader's request is not the handler's reply under the request's header"
		}
	}
	if bad != "" {
		c.R.Violate("slow-reader/"+firstWord(bad), fmt.Sprintf("client that stops reading before its first reply (type %d, version %#x, flags %#x, reply %s, %d write(s) ended in a timeout after a partial write): %s", typ, ver, fl, reply, torn, bad), cs)
		return
	}
	c.R.Trace()
}

// c06Deferred: the handler of request A keeps its Response and answers only after request B - another session, another
// type, version and flag octet - has been read and answered on the same connection. A's reply still mirrors A.
func c06Deferred(c *Ctx, w *lworld, ta, tb, fa, fb byte, reply string) {
	w.reset()
	lc, err := w.open()
	if err != nil {
		c.Abort("hang", err.Error(), nil)
	}
	defer func() {
		if !lc.C.Closed() {
			lc.C.FeedEOF()
		}
	}()
	cs := map[string]interface{}{"deferred_reply": true, "type_a": ta, "type_b": tb, "flags_a": fa, "flags_b": fb, "reply": reply}
	c.R.Eval()
	c.Cur(cs)
	c.R.Distinct(evid.Hash("deferred", ta, tb, fa, fb, reply))
	ha := ref.Header{Version: 0xc0, Type: ta, Seq: 1, Flags: fa, Session: 0xa5a5a5a5}
	hb := ref.Header{Version: 0xc1, Type: tb, Seq: 3, Flags: fb, Session: 0xb2b2b2b2}
	ra, err := w.deliver(lc, ref.Packet(ha, w.Key, minimalRequest(ta)), lAction{Action: ref.Action{Reply: true}, Body: c06Body(reply), Defer: true})
	if err != nil {
		c.Abort("hang", err.Error(), cs)
	}
	rb, err := w.deliver(lc, ref.Packet(hb, w.Key, minimalRequest(tb)), lAction{Action: ref.Action{Reply: true}, Body: c06Body("min")})
	if err != nil {
		c.Abort("hang", err.Error(), cs)
	}
	c.R.Trans(2)
	if !w.fireDeferred() {
		return
	}
	late := lc.C.Take()
	fail := func(what string) {
		c.R.Violate("deferred/"+firstWord(what), fmt.Sprintf("handler of request %+v answers (%s) after request %+v was read and answered: %s", ha, reply, hb, what), cs)
	}
	if len(ra.Out) != 0 {
		fail("bytes were written for A before its handler answered")
		return
	}
	check := func(name string, out []byte, h ref.Header, body []byte) bool {
		pk, rest := parseOut(out)
		if len(pk) != 1 || len(rest) != 0 {
			fail(fmt.Sprintf("%s: %d packets and %d stray bytes", name, len(pk), len(rest)))
			return false
		}
		want := ref.Header{Version: h.Version, Type: h.Type, Seq: h.Seq + 1, Flags: h.Flags, Session: h.Session, Length: uint32(len(body))}
		wb := body
		if h.Flags&1 == 0 {
			wb = ref.Obfuscate(want, w.Key, body)
		}
		if pk[0].H != want {
			fail(fmt.Sprintf("%s carries header %+v, its request asks for %+v", name, pk[0].H, want))
			return false
		}
		if string(pk[0].Body) != string(wb) {
			fail(name + ": body is not the handler's reply under its own request's header (obfuscation follows the request's flag)")
			return false
		}
		return true
	}
	if check("the reply to B", rb.Out, hb, c06BodyBytes("min")) && check("the late reply to A", late, ha, c06BodyBytes(reply)) {
		c.R.Trace()
	}
}

func c06BodyBytes(kind string) []byte {
	b, err := c06Body(kind).MarshalBinary()
	if err != nil {
		panic(err)
	}
	return b
}

// c06Lie: a handler that writes its own packet whose header length field lies; the writer must put the
// true number of body bytes on the wire and obfuscate with the header actually sent.
func c06Lie(c *Ctx, w *lworld, fl byte, n int, lie uint32) {
	w.reset()
	lc, err := w.open()
	if err != nil {
		c.Abort("hang", err.Error(), nil)
	}
	defer lc.C.FeedEOF()
	c.R.Eval()
	c.R.Trans(1)
	c.Cur(map[string]interface{}{"flags": fl, "n": n, "lie": lie})
	c.R.Distinct(evid.Hash("lie", fl, n, lie))
	h := ref.Header{Version: 0xc1, Type: 1, Seq: 1, Flags: fl, Session: 0x11e}
	clear := replyShaped(n)
	act := lAction{Write: func(req tq.Request) *tq.Packet {
		hh := req.Header
		hh.SeqNo = 2
		p := tq.NewPacket(tq.SetPacketHeader(&hh), tq.SetPacketBody(append([]byte{}, clear...)))
		p.Header.Length = lie
		return p
	}}
	r, err := w.deliver(lc, ref.Packet(h, w.Key, minimalRequest(1)), act)
	if err != nil {
		c.Abort("hang", err.Error(), nil)
	}
	cs := map[string]interface{}{"flags": fl, "n": n, "lie": lie}
	pk, rest := parseOut(r.Out)
	want := ref.Header{Version: 0xc1, Type: 1, Seq: 2, Flags: fl, Session: 0x11e, Length: uint32(n)}
	if len(pk) != 1 || len(rest) != 0 || pk[0].H != want || string(pk[0].Body) != string(ref.Obfuscate(want, w.Key, clear)) {
		c.R.Violate("lying-length", fmt.Sprintf("handler-built packet with %d body bytes and length field %d: wire has %d packets, %d stray bytes, first header %+v", n, lie, len(pk), len(rest), firstHeader(pk)), cs)
	}
}

func firstHeader(pk []srvxPacket) interface{} {
	if len(pk) == 0 {
		return nil
	}
	return pk[0].H
}

func c06Replay(c *Ctx, raw json.RawMessage) {
	w := newLWorld(c06Key, nil)
	defer w.W.Stop()
	var lie struct {
		Flags byte   `json:"flags"`
		N     int    `json:"n"`
		Lie   uint32 `json:"lie"`
	}
	var slow struct {
		Slow  bool   `json:"slow_reader"`
		Type  byte   `json:"type"`
		Ver   byte   `json:"version"`
		Flags byte   `json:"flags"`
		Reply string `json:"reply"`
		Next  bool   `json:"next"`
	}
	var dfr struct {
		D     bool   `json:"deferred_reply"`
		TA    byte   `json:"type_a"`
		TB    byte   `json:"type_b"`
		FA    byte   `json:"flags_a"`
		FB    byte   `json:"flags_b"`
		Reply string `json:"reply"`
	}
	if json.Unmarshal(raw, &dfr) == nil && dfr.D {
		c06Deferred(c, w, dfr.TA, dfr.TB, dfr.FA, dfr.FB, dfr.Reply)
		return
	}
	if json.Unmarshal(raw, &slow) == nil && slow.Slow {
		c06Slow(c, w, slow.Type, slow.Ver, slow.Flags, slow.Reply, slow.Next)
		return
	}
	if json.Unmarshal(raw, &lie) == nil && (lie.N != 0 || lie.Lie != 0) {
		c06Lie(c, w, lie.Flags, lie.N, lie.Lie)
		return
	}
	var chain []c06Event
	if err := json.Unmarshal(raw, &chain); err != nil {
		panic(err)
	}
	c06Chain(c, w, chain)
}
