package checks

import (
	"fmt"
	"sync"

	tq "github.com/facebookincubator/tacquito"

	"verif/mc/ref"
	"verif/mc/simnet"
	"verif/mc/srvx"
)

// lworld is the library-flavour world (E3-L): the real Serve loop, a fixed key, and scripted
// handlers whose instances are numbered so that the invoked one is observable.
type lworld struct {
	W   *srvx.World
	Key []byte

	mu     sync.Mutex
	inv    []invocation
	act    lAction
	nextID int
	// unjudged: a scripted step could not be carried out as scripted (see FailFirst)
	unjudged bool
	deferred []deferredReply
}

type deferredReply struct {
	resp tq.Response
	body tq.EncoderDecoder
}

// fireDeferred sends the oldest reply a handler left for later.
func (w *lworld) fireDeferred() bool {
	w.mu.Lock()
	if len(w.deferred) == 0 {
		w.mu.Unlock()
		return false
	}
	d := w.deferred[0]
	w.deferred = w.deferred[1:]
	w.mu.Unlock()
	d.resp.Reply(d.body)
	return true
}

type invocation struct {
	ID   int
	H    tq.Header
	Body []byte
}

// lAction is what the next invoked handler does.
type lAction struct {
	ref.Action
	Body tq.EncoderDecoder // reply body (when Reply)
	// Write, when set, makes the handler build its own packet and send it with Response.Write.
	Write func(req tq.Request) *tq.Packet
	// Defer: the handler returns without answering and keeps its Response; the harness sends the reply later (fireDeferred),
	// after other packets have been read on the connection - a handler that answers from another goroutine
	Defer bool
	// FailFirst: the handler first calls Reply this many times with a body that cannot be encoded (nothing is written,
	// Reply returns an error) and then falls back to Body, as the reference authorizer does for unencodable values.
	FailFirst int
}

// unencodable is a reply body whose MarshalBinary fails validation (an argument shorter than two octets).
func unencodable() tq.EncoderDecoder {
	return tq.NewAuthorReply(tq.SetAuthorReplyStatus(tq.AuthorStatusPassAdd), tq.SetAuthorReplyArgs("x"))
}

type scripted struct {
	w  *lworld
	id int
}

func (h *scripted) Handle(resp tq.Response, req tq.Request) {
	w := h.w
	w.mu.Lock()
	w.inv = append(w.inv, invocation{ID: h.id, H: req.Header, Body: append([]byte{}, req.Body...)})
	act := w.act
	var next *scripted
	if act.Next {
		next = &scripted{w: w, id: w.nextID}
		w.nextID++
	}
	w.mu.Unlock()
	if next != nil {
		resp.Next(next)
	}
	if act.Write != nil {
		resp.Write(act.Write(req))
		return
	}
	if act.Defer {
		w.mu.Lock()
		w.deferred = append(w.deferred, deferredReply{resp: resp, body: act.Body})
		w.mu.Unlock()
		return
	}
	if act.Reply {
		for i := 0; i < act.FailFirst; i++ {
			if _, err := resp.Reply(unencodable()); err == nil {
				// the body was encoded after all (another property's business): this step cannot be judged
				w.mu.Lock()
				w.unjudged = true
				w.mu.Unlock()
				return
			}
		}
		resp.Reply(act.Body)
	}
}

func newLWorld(key []byte, lg *srvx.Logger) *lworld {
	w := &lworld{Key: key, nextID: 1}
	w.W = srvx.Start(srvx.FixedSecret{Key: key, H: &scripted{w: w, id: 0}}, lg)
	return w
}

// reset prepares the world for a new connection history: handler ids restart at 1.
func (w *lworld) reset() {
	w.mu.Lock()
	w.inv = nil
	w.nextID = 1
	w.unjudged = false
	w.deferred = nil
	w.mu.Unlock()
}

func (w *lworld) setAction(a lAction) {
	w.mu.Lock()
	w.act = a
	w.inv = nil
	w.mu.Unlock()
}

func (w *lworld) takeInv() []invocation {
	w.mu.Lock()
	defer w.mu.Unlock()
	v := w.inv
	w.inv = nil
	return v
}

// lconn is one scripted connection of an lworld with its model.
type lconn struct {
	C *simnet.Conn
	M *ref.ConnModel
}

func (w *lworld) open() (*lconn, error) {
	c, err := w.W.Open(srvx.Addr4(10, 9, 8, 7, 4000))
	return &lconn{C: c, M: ref.NewConnModel()}, err
}

// minimal valid request bodies per header type, from the reference layouts.
func minimalRequest(typ byte) []byte {
	switch typ {
	case 1:
		m := ref.NewMsg()
		m.N["action"], m.N["priv_lvl"], m.N["authen_type"], m.N["authen_service"] = 1, 1, 1, 1
		m.S["user"] = []byte("bob")
		b, _ := ref.AuthenStart.Encode(m)
		return b
	case 2:
		m := ref.NewMsg()
		m.N["authen_method"], m.N["priv_lvl"], m.N["authen_type"], m.N["authen_service"] = 6, 1, 1, 1
		m.S["user"] = []byte("bob")
		m.Args = [][]byte{[]byte("service=shell"), []byte("cmd=show")}
		b, _ := ref.AuthorRequest.Encode(m)
		return b
	default:
		m := ref.NewMsg()
		m.N["flags"], m.N["authen_method"], m.N["priv_lvl"], m.N["authen_type"], m.N["authen_service"] = 2, 6, 1, 1, 1
		m.S["user"] = []byte("bob")
		m.Args = [][]byte{[]byte("task_id=1")}
		b, _ := ref.AcctRequest.Encode(m)
		return b
	}
}

// defaultReply is a small valid reply body for a header type.
func defaultReply(typ byte) tq.EncoderDecoder {
	switch typ {
	case 1:
		return tq.NewAuthenReply(tq.SetAuthenReplyStatus(tq.AuthenStatusGetData), tq.SetAuthenReplyServerMsg("more"))
	case 2:
		return tq.NewAuthorReply(tq.SetAuthorReplyStatus(tq.AuthorStatusPassAdd), tq.SetAuthorReplyArgs("priv-lvl=1"))
	default:
		return tq.NewAcctReply(tq.SetAcctReplyStatus(tq.AcctReplyStatusSuccess), tq.SetAcctReplyServerMsg("ok"))
	}
}

// stepResult is what the implementation did for one delivered packet.
type stepResult struct {
	Inv    []invocation
	Out    []byte
	Closed bool
}

// deliver sends one packet (given as wire bytes) with the handler action set and collects the outcome.
func (w *lworld) deliver(lc *lconn, wire []byte, act lAction) (stepResult, error) {
	w.setAction(act)
	closed, err := w.W.Deliver(lc.C, wire)
	if err != nil {
		return stepResult{}, err
	}
	return stepResult{Inv: w.takeInv(), Out: lc.C.Take(), Closed: closed}, nil
}

// compareStep checks one implementation step against the model verdict for header h / action act.
// It returns "" when they agree. mustObf: the reply body must be obfuscated with key (request's unencrypted bit clear).
func compareStep(lc *lconn, key []byte, h ref.Header, act lAction, v ref.Verdict, r stepResult) string {
	if v.EitherRejectOrEntry {
		if len(r.Inv) == 0 {
			if !r.Closed {
				return "packet reached no handler but the connection stayed open"
			}
			lc.M.ResolveRejected(h, act.Action)
			if len(r.Out) != 0 {
				pk, rest := srvx.ParseStream(r.Out)
				if len(pk) > 1 || len(rest) != 0 {
					return "more than one packet written for a rejected request"
				}
			}
			return ""
		}
	}
	if !v.Accept {
		if len(r.Inv) != 0 {
			return fmt.Sprintf("a packet the model rejects reached handler instance %d", r.Inv[0].ID)
		}
		if !r.Closed {
			return "rejected packet did not close the connection"
		}
		pk, rest := srvx.ParseStream(r.Out)
		if len(pk) > 1 || len(rest) != 0 {
			return fmt.Sprintf("rejected packet produced %d packets and %d stray bytes", len(pk), len(rest))
		}
		return ""
	}
	if len(r.Inv) != 1 {
		return fmt.Sprintf("accepted packet caused %d handler invocations (closed=%v)", len(r.Inv), r.Closed)
	}
	if r.Inv[0].ID != v.Handler {
		return fmt.Sprintf("dispatched to handler instance %d, model says %d", r.Inv[0].ID, v.Handler)
	}
	if r.Closed {
		return "connection closed after an accepted packet"
	}
	pk, rest := srvx.ParseStream(r.Out)
	if len(rest) != 0 {
		return fmt.Sprintf("%d stray bytes after the last complete packet", len(rest))
	}
	if v.ReplySeq == 0 {
		if len(pk) != 0 {
			return fmt.Sprintf("no reply may be written here, but %d packet(s) with sequence %d were", len(pk), pk[0].H.Seq)
		}
		return ""
	}
	if len(pk) != 1 {
		return fmt.Sprintf("expected one reply packet, got %d", len(pk))
	}
	rh := pk[0].H
	clear, _ := act.Body.MarshalBinary()
	want := ref.Header{Version: h.Version, Type: h.Type, Seq: byte(v.ReplySeq), Flags: h.Flags, Session: h.Session, Length: uint32(len(clear))}
	if rh != want {
		return fmt.Sprintf("reply header %+v, want %+v", rh, want)
	}
	wantBody := ref.Obfuscate(want, key, clear)
	if string(pk[0].Body) != string(wantBody) {
		return fmt.Sprintf("reply body differs from the expected %s body at offset %d", map[bool]string{true: "clear", false: "obfuscated"}[h.Flags&1 != 0], firstDiff(pk[0].Body, wantBody))
	}
	return ""
}

func parseOut(b []byte) ([]srvx.WirePacket, []byte) { return srvx.ParseStream(b) }

type srvxPacket = srvx.WirePacket
