package checks

import (
	"context"
	"encoding/json"
	"fmt"
	"net"
	"strings"

	"github.com/facebookincubator/tacquito/cmds/server/config"

	"verif/mc/evid"
	"verif/mc/ref"
	"verif/mc/srvx"
)

// C13: admission: deny beats allow, first matching scope wins, users stay scoped.

func init() {
	Registry["C13"] = &Check{
		Spec: func(tier string) evid.Spec {
			return evid.Spec{ID: "C13", Level: "exploration", Exhaustive: true,
				Rule: "configurations = ordered selections of 1-3 of 6 scopes (overlapping prefixes 10.0.0.0/8, 10.1.0.0/16, ::/0, {2001:db8::/32,192.168.0.0/24}, a user-less scope on 10.0.0.0/8, a scope with nested prefixes {10.0.0.0/8, 10.20.0.0/16, 10.20.30.0/24, 2001:db8::/32, 2001:db8:20::/48}; distinct keys) x deny{none,[10.1.2.0/24],[2001:db8:1::/48],[0.0.0.0/0],[::ffff:10.1.2.0/120] (an IPv4 prefix in IPv4-mapped spelling)} " +
					"x allow{none,[10.0.0.0/8],[2001:db8::/32,10.1.0.0/16],[::ffff:10.0.0.0/104]}; addresses = for every prefix in the configuration its first-1, first, last, last+1 address, as IPv4, IPv6 and IPv4-mapped IPv6, plus a non-TCP address. " +
					"Level 1: the real Loader.Get result (secret, handler, error) for every (configuration, address) against the reference admission model. Level 2 (full server over the scripted network, one configuration per scope-order class): " +
					"a refused connection is closed with zero bytes written and zero handler invocations; a served one answers a command authorization obfuscated with the bound scope's key under that key, grants it for a user of that scope " +
					"answers FAIL for a user that exists only in another scope, users assigned to every scope (listed in configuration order and in reverse) are granted everywhere and their session authorization returns exactly the value configured for the bound scope, and a user name configured in every scope with a different bcrypt credential logs in (PAP) with the bound scope's credential and with no other scope's. Level 3 (engine E2): four overlapping-scope configurations are built and queried under the controlled scheduler, every schedule with <= 1 (quick) / 2 (thorough) deviations, so that any concurrency inside the loader's build cannot reorder scopes unnoticed. distinct_nontrivial = distinct (configuration, address) pairs where at least one filter or two scopes match",
				Assumptions: []string{"containment is bitwise within an address family; IPv4-mapped IPv6 addresses are IPv4 (Go net semantics)", "a scope without users is skipped (the loader's documented rule)"}}
		},
		Workers:      constInt(16, 16),
		SchedWorkers: constInt(4, 4),
		Run: func(c *Ctx) {
			if c.Param == "sched" {
				schedRun(c)
				return
			}
			c13Run(c)
		},
		Replay: c13Replay,
		Post:   schedPost,
	}
}

type c13Scope struct {
	Name     string   `json:"name"`
	Key      string   `json:"key"`
	Prefixes []string `json:"prefixes"`
	Users    bool     `json:"users"`
}

type c13Case struct {
	Scopes []c13Scope `json:"scopes"`
	Deny   []string   `json:"deny"`
	Allow  []string   `json:"allow"`
	Addr   string     `json:"addr"` // "" = non-TCP address
	Full   bool       `json:"full_stack"`
}

var c13Scopes = []c13Scope{
	{"wide", "key-wide", []string{"10.0.0.0/8"}, true},
	{"narrow", "key-narrow", []string{"10.1.0.0/16"}, true},
	{"v6all", "key-v6all", []string{"::/0"}, true},
	{"mixed", "key-mixed", []string{"2001:db8::/32", "192.168.0.0/24"}, true},
	{"empty", "key-empty", []string{"10.0.0.0/8"}, false},
	// prefixes nested inside one scope: an address above the narrow ones is still inside the wide one
	{"nested", "key-nested", []string{"10.0.0.0/8", "10.20.0.0/16", "10.20.30.0/24", "2001:db8::/32", "2001:db8:20::/48"}, true},
}

type unixAddr struct{}

func (unixAddr) Network() string { return "unix" }
func (unixAddr) String() string  { return "/tmp/sock" }

func c13Config(cs c13Case) config.ServerConfig {
	cfg := config.ServerConfig{PrefixDeny: cs.Deny, PrefixAllow: cs.Allow}
	for _, s := range cs.Scopes {
		cfg.Secrets = append(cfg.Secrets, scopeCfg(s.Name, s.Key, s.Prefixes...))
		if s.Users {
			// a user that exists only in this scope, and a shared name with scope-specific rights
			cfg.Users = append(cfg.Users, config.User{Name: "only-" + s.Name, Scopes: []string{s.Name},
				Commands: []config.Command{{Name: "show", Action: config.PERMIT}}})
			// the same user name with a different credential in every scope
			cfg.Users = append(cfg.Users, config.User{Name: "dup", Scopes: []string{s.Name}, Authenticator: bcryptAuthn("pw-" + s.Name)})
		}
	}
	var all []string
	for _, s := range cs.Scopes {
		if s.Users {
			all = append(all, s.Name)
		}
	}
	// users assigned to every scope - in configuration order and in the reverse order - with one service per scope that
	// applies only on connections of that scope
	var svcs []config.Service
	for _, n := range all {
		svcs = append(svcs, config.Service{Name: "shell", Match: []config.Value{{Name: "scope", Values: []string{n}}}, SetValues: []config.Value{{Name: "tag", Values: []string{n}}}})
	}
	rev := make([]string, len(all))
	for i, n := range all {
		rev[len(all)-1-i] = n
	}
	cfg.Users = append(cfg.Users, config.User{Name: "everywhere", Scopes: all, Commands: []config.Command{{Name: "show", Action: config.PERMIT}}, Services: svcs},
		config.User{Name: "reversed", Scopes: rev, Commands: []config.Command{{Name: "show", Action: config.PERMIT}}, Services: svcs})
	return cfg
}

func boundary(prefix string) []net.IP {
	_, n, err := net.ParseCIDR(prefix)
	if err != nil {
		return nil
	}
	first := append(net.IP{}, n.IP...)
	last := append(net.IP{}, n.IP...)
	for i := range last {
		last[i] |= ^n.Mask[i]
	}
	dec := func(ip net.IP) net.IP {
		o := append(net.IP{}, ip...)
		for i := len(o) - 1; i >= 0; i-- {
			o[i]--
			if o[i] != 0xff {
				break
			}
		}
		return o
	}
	inc := func(ip net.IP) net.IP {
		o := append(net.IP{}, ip...)
		for i := len(o) - 1; i >= 0; i-- {
			o[i]++
			if o[i] != 0 {
				break
			}
		}
		return o
	}
	out := []net.IP{dec(first), first, last, inc(last)}
	// also the IPv4-mapped and 16-byte forms of IPv4 addresses
	var more []net.IP
	for _, ip := range out {
		if v4 := ip.To4(); v4 != nil && len(ip) == 4 {
			more = append(more, v4.To16())
		}
	}
	return append(out, more...)
}

func c13Addrs(cs c13Case) []string {
	seen := map[string]bool{}
	var out []string
	add := func(ip net.IP) {
		if s := ip.String(); !seen[s+fmt.Sprint(len(ip))] {
			seen[s+fmt.Sprint(len(ip))] = true
			out = append(out, fmt.Sprintf("%x", []byte(ip)))
		}
	}
	var prefixes []string
	for _, s := range c13Scopes {
		prefixes = append(prefixes, s.Prefixes...)
	}
	prefixes = append(prefixes, "10.1.2.0/24", "2001:db8:1::/48", "0.0.0.0/0", "2001:db8::/32", "10.1.0.0/16")
	for _, p := range prefixes {
		for _, ip := range boundary(p) {
			add(ip)
		}
	}
	add(net.ParseIP("::1"))
	add(net.ParseIP("::ffff:10.1.2.3"))
	return append(out, "")
}

func c13Model(cs c13Case) (scopes []ref.Scope) {
	for _, s := range cs.Scopes {
		scopes = append(scopes, ref.Scope{Name: s.Name, Key: s.Key, Prefixes: s.Prefixes, Effective: s.Users})
	}
	return
}

func addrOf(hexip string) (net.Addr, net.IP, bool) {
	if hexip == "" {
		return unixAddr{}, nil, false
	}
	var b []byte
	fmt.Sscanf(hexip, "%x", &b)
	return &net.TCPAddr{IP: net.IP(b), Port: 1313}, net.IP(b), true
}

func c13Get(c *Ctx, rw *rworld, cs c13Case) {
	c.R.Eval()
	addr, ip, tcp := addrOf(cs.Addr)
	want := ref.Admit(cs.Deny, cs.Allow, c13Model(cs), ip, tcp)
	secret, handler, err := rw.Loader.Get(context.Background(), addr)
	served := err == nil && secret != nil && handler != nil
	fail := func(kind, what string) {
		c.R.ViolateMin("get/"+kind, fmt.Sprintf("%s; address %v deny=%v allow=%v scopes=%+v", what, addr, cs.Deny, cs.Allow, cs.Scopes), cs, len(cs.Scopes)+len(cs.Deny)+len(cs.Allow))
	}
	matches := 0
	for _, s := range cs.Scopes {
		for _, p := range s.Prefixes {
			if pp, ok := ref.ParsePrefix(p); ok && tcp && pp.Contains(ip) {
				matches++
				break
			}
		}
	}
	if matches >= 2 || len(cs.Deny)+len(cs.Allow) > 0 {
		c.R.Distinct(evid.Hash(fmt.Sprint(cs.Scopes), fmt.Sprint(cs.Deny), fmt.Sprint(cs.Allow), cs.Addr))
	}
	if want < 0 {
		if served {
			fail("served-but-must-refuse", fmt.Sprintf("lookup served the address with key %q although the model refuses it", secret))
		}
		return
	}
	if !served {
		fail("refused-but-must-serve", fmt.Sprintf("lookup refused the address (%v) although scope %s must serve it", err, cs.Scopes[want].Name))
		return
	}
	if string(secret) != cs.Scopes[want].Key {
		fail("wrong-scope", fmt.Sprintf("bound to key %q, the first matching scope in configuration order is %s (%q)", secret, cs.Scopes[want].Name, cs.Scopes[want].Key))
	}
}

// c13Full drives the whole server for one (configuration, address).
func c13Full(c *Ctx, rw *rworld, cs c13Case) {
	c.R.Eval()
	c.Cur(cs)
	addr, ip, tcp := addrOf(cs.Addr)
	want := ref.Admit(cs.Deny, cs.Allow, c13Model(cs), ip, tcp)
	fail := func(kind, what string) {
		c.R.ViolateMin("full/"+kind, fmt.Sprintf("%s; address %v deny=%v allow=%v scopes=%+v", what, addr, cs.Deny, cs.Allow, cs.Scopes), cs, len(cs.Scopes)+len(cs.Deny)+len(cs.Allow))
	}
	rw.takeCalls()
	conn, err := rw.W.Open(addr)
	if err != nil {
		c.Abort("hang", err.Error(), cs)
	}
	defer func() {
		if !conn.Closed() {
			conn.FeedEOF()
		}
	}()
	if want < 0 {
		if !conn.Closed() {
			fail("refused-not-closed", "a connection the model refuses was left open")
		}
		if out := conn.Take(); len(out) != 0 {
			fail("refused-bytes", fmt.Sprintf("%d bytes were written to a refused connection", len(out)))
		}
		if n := len(rw.takeCalls()); n != 0 {
			fail("refused-handler", "a handler ran for a refused connection")
		}
		return
	}
	if conn.Closed() {
		fail("served-closed", "a connection the model serves was closed at once")
		return
	}
	key := []byte(cs.Scopes[want].Key)
	ask := func(user string, sid uint32) (status int, ok bool) {
		m := ref.NewMsg()
		m.N["authen_method"], m.N["priv_lvl"], m.N["authen_type"], m.N["authen_service"] = 6, 1, 1, 1
		m.S["user"] = []byte(user)
		m.Args = [][]byte{[]byte("service=shell"), []byte("cmd=show")}
		body, _ := ref.AuthorRequest.Encode(m)
		h := ref.Header{Version: 0xc0, Type: 2, Seq: 1, Session: sid}
		closed, err := rw.W.Deliver(conn, ref.Packet(h, key, body))
		if err != nil {
			c.Abort("hang", err.Error(), cs)
		}
		pk, rest := srvx.ParseStream(conn.Take())
		if closed || len(pk) != 1 || len(rest) != 0 {
			fail("no-answer", fmt.Sprintf("request under the bound scope's key got closed=%v packets=%d", closed, len(pk)))
			return 0, false
		}
		rm, cl := ref.AuthorReply.Decode(ref.Obfuscate(pk[0].H, key, pk[0].Body))
		if cl != ref.Exact {
			fail("wrong-key", "the reply does not decode under the bound scope's key")
			return 0, false
		}
		return rm.N["status"], true
	}
	if st, ok := ask("only-"+cs.Scopes[want].Name, 1); ok && st != 1 {
		fail("own-user-denied", fmt.Sprintf("a user of the bound scope %s was answered status %#x", cs.Scopes[want].Name, st))
	}
	if st, ok := ask("everywhere", 2); ok && st != 1 {
		fail("shared-user-denied", fmt.Sprintf("a user assigned to every scope was answered status %#x", st))
	}
	if st, ok := ask("reversed", 20); ok && st != 1 {
		fail("shared-user-denied", fmt.Sprintf("a user assigned to every scope (listed in reverse order) was answered status %#x", st))
	}
	// the scope a session authorization is evaluated in is the one the connection is bound to
	for i, user := range []string{"everywhere", "reversed"} {
		m := ref.NewMsg()
		m.N["authen_method"], m.N["priv_lvl"], m.N["authen_type"], m.N["authen_service"] = 6, 1, 1, 1
		m.S["user"] = []byte(user)
		m.Args = [][]byte{[]byte("service=shell"), []byte("cmd=")}
		body, _ := ref.AuthorRequest.Encode(m)
		closed, err := rw.W.Deliver(conn, ref.Packet(ref.Header{Version: 0xc0, Type: 2, Seq: 1, Session: uint32(30 + i)}, key, body))
		if err != nil {
			c.Abort("hang", err.Error(), cs)
		}
		pk, rest := srvx.ParseStream(conn.Take())
		if closed || len(pk) != 1 || len(rest) != 0 {
			fail("no-answer", fmt.Sprintf("session authorization under the bound scope's key got closed=%v packets=%d", closed, len(pk)))
			continue
		}
		rm, cl := ref.AuthorReply.Decode(ref.Obfuscate(pk[0].H, key, pk[0].Body))
		var got []string
		if rm != nil {
			for _, a := range rm.Args {
				got = append(got, strings.TrimSpace(string(a)))
			}
		}
		if cl != ref.Exact || rm.N["status"] != 1 || len(got) != 1 || got[0] != "tag="+cs.Scopes[want].Name {
			fail("session-scope", fmt.Sprintf("user %s on a connection bound to scope %s: session authorization answered %v (status %v), want exactly tag=%s", user, cs.Scopes[want].Name, got, rm, cs.Scopes[want].Name))
		}
	}
	// the same user name with different credentials in different scopes: only the bound scope's entry exists here
	login := func(pw string, sid uint32) (status int, ok bool) {
		m := ref.NewMsg()
		m.N["action"], m.N["priv_lvl"], m.N["authen_type"], m.N["authen_service"] = 1, 1, 2, 1
		m.S["user"], m.S["port"], m.S["rem_addr"], m.S["data"] = []byte("dup"), []byte("tty0"), []byte("203.0.113.9"), []byte(pw)
		body, _ := ref.AuthenStart.Encode(m)
		h := ref.Header{Version: 0xc1, Type: 1, Seq: 1, Session: sid}
		closed, err := rw.W.Deliver(conn, ref.Packet(h, key, body))
		if err != nil {
			c.Abort("hang", err.Error(), cs)
		}
		pk, rest := srvx.ParseStream(conn.Take())
		if closed || len(pk) != 1 || len(rest) != 0 {
			fail("no-answer", fmt.Sprintf("login under the bound scope's key got closed=%v packets=%d", closed, len(pk)))
			return 0, false
		}
		rm, cl := ref.AuthenReply.Decode(ref.Obfuscate(pk[0].H, key, pk[0].Body))
		if cl != ref.Exact {
			fail("wrong-key", "the login reply does not decode under the bound scope's key")
			return 0, false
		}
		return rm.N["status"], true
	}
	if cs.Scopes[want].Users {
		if st, ok := login("pw-"+cs.Scopes[want].Name, 4); ok && st != 1 {
			fail("own-credential-refused", fmt.Sprintf("user dup presented the credential configured for it in the bound scope %s and was answered status %d", cs.Scopes[want].Name, st))
		}
	}
	for i, s := range cs.Scopes {
		if s.Name != cs.Scopes[want].Name && s.Users {
			if st, ok := login("pw-"+s.Name, uint32(5+i)); ok && st == 1 {
				fail("foreign-credential-accepted", fmt.Sprintf("user dup logged in on a connection bound to %s with the credential of its entry in scope %s", cs.Scopes[want].Name, s.Name))
			}
		}
	}
	for _, s := range cs.Scopes {
		if s.Name != cs.Scopes[want].Name && s.Users {
			if st, ok := ask("only-"+s.Name, 3); ok && st != 0x10 {
				fail("foreign-user-known", fmt.Sprintf("user only-%s exists only in scope %s but was answered status %#x on a connection bound to %s", s.Name, s.Name, st, cs.Scopes[want].Name))
			}
		}
	}
}

func c13Run(c *Ctx) {
	denies := [][]string{nil, {"10.1.2.0/24"}, {"2001:db8:1::/48"}, {"0.0.0.0/0"}, {"::ffff:10.1.2.0/120"}}
	allows := [][]string{nil, {"10.0.0.0/8"}, {"2001:db8::/32", "10.1.0.0/16"}, {"::ffff:10.0.0.0/104"}}
	// ordered selections of 1..3 scopes
	var sels [][]c13Scope
	n := len(c13Scopes)
	for i := 0; i < n; i++ {
		sels = append(sels, []c13Scope{c13Scopes[i]})
		for j := 0; j < n; j++ {
			if j == i {
				continue
			}
			sels = append(sels, []c13Scope{c13Scopes[i], c13Scopes[j]})
			for k := 0; k < n; k++ {
				if k == i || k == j {
					continue
				}
				sels = append(sels, []c13Scope{c13Scopes[i], c13Scopes[j], c13Scopes[k]})
			}
		}
	}
	job := 0
	for si, sel := range sels {
		for _, deny := range denies {
			for _, allow := range allows {
				job++
				if !c.Mine(job) {
					continue
				}
				cs := c13Case{Scopes: sel, Deny: deny, Allow: allow}
				hasUsers := false
				for _, s := range sel {
					hasUsers = hasUsers || s.Users
				}
				if !hasUsers {
					continue // the loader has nothing to serve; the "everywhere" user would have no scope
				}
				rw, err := newRWorld(c13Config(cs), nil, false)
				if err != nil {
					panic(err)
				}
				full := !c.Quick || si%3 == 0
				for _, a := range c13Addrs(cs) {
					cs.Addr = a
					c13Get(c, rw, cs)
					if full {
						cs.Full = true
						c13Full(c, rw, cs)
						cs.Full = false
					}
				}
				if job%37 == 0 {
					c.R.SampleCap(5, cs)
				}
				if err := rw.stop(); err != nil {
					c.Abort("hang", err.Error(), cs)
				}
				if c.Expired() {
					return
				}
			}
		}
	}
}

func c13Replay(c *Ctx, raw json.RawMessage) {
	var cs c13Case
	if err := json.Unmarshal(raw, &cs); err != nil {
		panic(err)
	}
	rw, err := newRWorld(c13Config(cs), nil, false)
	if err != nil {
		panic(err)
	}
	defer rw.stop()
	if cs.Full {
		c13Full(c, rw, cs)
	} else {
		c13Get(c, rw, cs)
	}
}
