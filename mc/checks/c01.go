package checks

import (
	"bytes"
	"encoding/json"
	"fmt"

	tq "github.com/facebookincubator/tacquito"

	"verif/mc/evid"
	"verif/mc/ref"
)

// C01: wire format of header and all AAA bodies = RFC 8907 layouts.

func init() {
	Registry["C01"] = &Check{
		Spec: func(tier string) evid.Spec {
			return evid.Spec{ID: "C01", Level: "exploration", Exhaustive: true,
				Rule: "every header over version{c0,c1} x type{1,2,3} x seq x flag octet x 6 session ids x 6 lengths (quick: two factored planes of seq x flags); " +
					"every body type over (a) the full product of its enum/flag fields x 3 length profiles and (b) the full product of boundary text lengths x argument shapes x 2 enum profiles; " +
					"each value is encoded by the library and by the table-driven RFC layout interpreter (bytes must be equal) and the reference bytes are decoded by the library (fields must be equal). " +
					"distinct_nontrivial counts distinct (type, reference encoding) pairs by hash",
				Assumptions: []string{
					"layout positions do not depend on enum values, so sweeping enums at 3 length profiles and lengths at 2 enum profiles covers every (octet position, value) pair",
					"the reference layouts in mc/ref/layout.go restate RFC 8907 sections 4.1, 5.1-5.3, 6.1-6.2, 7.1-7.2 faithfully",
				}}
		},
		Workers: constInt(16, 16),
		Run:     c01Run,
		Replay:  c01Replay,
	}
}

type c01Case struct {
	Kind   string   `json:"kind"` // "body" or "header" or "packet"
	Msg    *msgJSON `json:"msg,omitempty"`
	Header *ref.Header
	BodyN  int `json:"body_n,omitempty"`
	// Then: the evaluation that follows Msg on the same process (kind "retain")
	Then *msgJSON `json:"then,omitempty"`
}

// c01Held is the previous body evaluation of this worker (see heldCodec).
var c01Held *heldCodec

// c01Used: per layout, one long-lived destination that every evaluation decodes into after the previous one did, and the
// message it held before.
var c01Used = map[string]tq.EncoderDecoder{}
var c01UsedMsg = map[string]*ref.Msg{}

func c01Run(c *Ctx) {
	job := 0
	// bodies, plane (a): enums x 3 length profiles
	for _, s := range layoutSpecs {
		doms := make([][]int, len(s.Enums))
		sizes := make([]int, len(s.Enums))
		for i, e := range s.Enums {
			doms[i] = e.Valid
			if c.Quick && e.Small != nil {
				doms[i] = e.Small
			}
			sizes[i] = len(doms[i])
		}
		for p := 0; p < 3; p++ {
			lens, shape := lengthProfile(s, p)
			// shard on the first enum dimension
			for first := 0; first < sizes[0]; first++ {
				job++
				if !c.Mine(job) {
					continue
				}
				sub := append([]int{1}, sizes[1:]...)
				forEachCombo(sub, func(idx []int) bool {
					vals := make([]int, len(idx))
					vals[0] = doms[0][first]
					for i := 1; i < len(idx); i++ {
						vals[i] = doms[i][idx[i]]
					}
					c01Body(c, s, build(s, vals, lens, shape))
					return true
				})
			}
		}
	}
	// bodies, plane (b): lengths x argument shapes x 2 enum profiles
	for _, s := range layoutSpecs {
		var doms [][]int
		for _, t := range s.Texts {
			switch {
			case t.Wide && c.Quick:
				doms = append(doms, len16)
			case t.Wide:
				doms = append(doms, len16T)
			case c.Quick:
				doms = append(doms, len8)
			default:
				doms = append(doms, len8T)
			}
		}
		shapes := []argShape{nil}
		if s.HasArgs {
			shapes = argShapes(s.ArgMin, !c.Quick)
		}
		sizes := make([]int, len(doms))
		for i := range doms {
			sizes[i] = len(doms[i])
		}
		for ep := 0; ep < 2; ep++ {
			vals := make([]int, len(s.Enums))
			for i, e := range s.Enums {
				if ep == 0 {
					vals[i] = e.Valid[0]
				} else {
					vals[i] = e.Valid[len(e.Valid)-1]
				}
			}
			for _, shape := range shapes {
				for first := 0; first < sizes[0]; first++ {
					job++
					if !c.Mine(job) {
						continue
					}
					sub := append([]int{1}, sizes[1:]...)
					forEachCombo(sub, func(idx []int) bool {
						lens := make([]int, len(idx))
						lens[0] = doms[0][first]
						for i := 1; i < len(idx); i++ {
							lens[i] = doms[i][idx[i]]
						}
						c01Body(c, s, build(s, vals, lens, shape))
						return true
					})
				}
			}
		}
	}
	// headers
	sessions := []uint32{0, 1, 0x01020304, 0x7fffffff, 0x80000000, 0xffffffff}
	lengths := []uint32{0, 1, 255, 256, 65535, 65536}
	seqsSm := []int{1, 2, 3, 127, 128, 254, 255}
	flagsSm := []int{0, 1, 4, 5, 0xfe, 0xff}
	for _, ver := range []byte{0xc0, 0xc1} {
		for _, typ := range []byte{1, 2, 3} {
			for _, sid := range sessions {
				job++
				if !c.Mine(job) {
					continue
				}
				for _, ln := range lengths {
					if c.Quick {
						for _, seq := range seqsSm {
							for fl := 0; fl < 256; fl++ {
								c01Header(c, ref.Header{Version: ver, Type: typ, Seq: byte(seq), Flags: byte(fl), Session: sid, Length: ln})
							}
						}
						for seq := 1; seq < 256; seq++ {
							for _, fl := range flagsSm {
								c01Header(c, ref.Header{Version: ver, Type: typ, Seq: byte(seq), Flags: byte(fl), Session: sid, Length: ln})
							}
						}
					} else {
						for seq := 1; seq < 256; seq++ {
							for fl := 0; fl < 256; fl++ {
								c01Header(c, ref.Header{Version: ver, Type: typ, Seq: byte(seq), Flags: byte(fl), Session: sid, Length: ln})
							}
						}
					}
				}
			}
		}
	}
	// packets: header followed by body, every boundary size
	job++
	if c.Mine(job) {
		for _, n := range []int{0, 1, 2, 11, 12, 13, 255, 256, 65535, 65536} {
			c01Packet(c, ref.Header{Version: 0xc1, Type: 2, Seq: 7, Flags: 0, Session: 0xa1b2c3d4}, n)
		}
	}
}

func c01Body(c *Ctx, s layoutSpec, m *ref.Msg) {
	c.R.Eval()
	want, ok := s.L.Encode(m)
	if !ok {
		panic("C01 generator produced an unrepresentable value")
	}
	c.R.Distinct(evid.Hash(s.L.Name, want))
	if len(m.Args) > 0 || c.R.Evaluations%997 == 0 {
		c.R.SampleCap(4, map[string]interface{}{"layout": s.L.Name, "fields": m.String(), "encoding_prefix": hx(want)})
	}
	fail := func(dir, what string) {
		j := msgToJSON(s.L, m)
		c.R.Violate(fmt.Sprintf("%s/%s/%s", s.L.Name, dir, firstWord(what)), fmt.Sprintf("%s %s: %s; value %s", s.L.Name, dir, what, m.String()),
			c01Case{Kind: "body", Msg: &j})
	}
	v := toImpl(s.L, m)
	var got []byte
	var err error
	if p := safely(func() { got, err = v.MarshalBinary() }); p != "" {
		fail("encode", "panic "+p)
		return
	}
	if err != nil {
		fail("encode", "refused a value within the wire widths and validation rules: "+err.Error())
	} else if !bytes.Equal(got, want) {
		fail("encode", fmt.Sprintf("bytes differ from the RFC layout at offset %d: got %s want %s", firstDiff(got, want), hx(got), hx(want)))
	}
	d := emptyImpl(s.L)
	if p := safely(func() { err = d.UnmarshalBinary(want) }); p != "" {
		fail("decode", "panic "+p)
		return
	}
	if err != nil {
		fail("decode", "refused RFC-laid-out bytes: "+err.Error())
		return
	}
	if diff := sameMsg(m, fromImpl(d)); diff != "" {
		fail("decode", "decoded fields differ: "+diff)
	}
	// decoding replaces whatever the destination held: the same bytes decoded into the value the previous evaluation of
	// this layout decoded into yield the same fields
	if used := c01Used[s.L.Name]; used != nil {
		if p := safely(func() { err = used.UnmarshalBinary(want) }); p != "" {
			fail("decode-into-used", "panic "+p)
			return
		}
		if err != nil {
			fail("decode-into-used", "RFC-laid-out bytes refused when the destination had been decoded into before: "+err.Error())
		} else if diff := sameMsg(m, fromImpl(used)); diff != "" {
			pj, j := msgToJSON(s.L, c01UsedMsg[s.L.Name]), msgToJSON(s.L, m)
			c.R.Violate(s.L.Name+"/decode-into-used/"+firstWord(diff), fmt.Sprintf("%s decoded into a value that had held %s yields fields the bytes do not carry: %s; value %s", s.L.Name, c01UsedMsg[s.L.Name].String(), diff, m.String()),
				c01Case{Kind: "reuse", Msg: &pj, Then: &j})
		}
	} else {
		c01Used[s.L.Name] = emptyImpl(s.L)
		c01Used[s.L.Name].UnmarshalBinary(want)
	}
	c01UsedMsg[s.L.Name] = m
	// the previous evaluation's results must have survived this one
	if what := c01Held.changed(); what != "" {
		pj, j := msgToJSON(c01Held.L, c01Held.M), msgToJSON(s.L, m)
		c.R.Violate("retain/"+c01Held.L.Name+"/"+firstWord(what), fmt.Sprintf("%s after %s then %s: %s", c01Held.L.Name, c01Held.M.String(), m.String(), what),
			c01Case{Kind: "retain", Msg: &pj, Then: &j})
	}
	c01Held = holdCodec(s.L, m, v, got, want, d)
}

func firstWord(s string) string {
	for i, r := range s {
		if r == ' ' || r == ':' {
			return s[:i]
		}
	}
	return s
}

func firstDiff(a, b []byte) int {
	n := len(a)
	if len(b) < n {
		n = len(b)
	}
	for i := 0; i < n; i++ {
		if a[i] != b[i] {
			return i
		}
	}
	return n
}

func implHeader(h ref.Header) *tq.Header {
	return &tq.Header{Version: tq.Version{MajorVersion: h.Version >> 4, MinorVersion: h.Version & 0xf}, Type: tq.HeaderType(h.Type),
		SeqNo: tq.SequenceNumber(h.Seq), Flags: tq.HeaderFlag(h.Flags), SessionID: tq.SessionID(h.Session), Length: h.Length}
}

func c01Header(c *Ctx, h ref.Header) {
	c.R.Eval()
	want := h.Encode()
	c.R.Distinct(evid.Hash("hdr", want))
	fail := func(dir, what string) {
		hh := h
		c.R.Violate("Header/"+dir+"/"+firstWord(what), fmt.Sprintf("header %s: %s; %+v", dir, what, h), c01Case{Kind: "header", Header: &hh})
	}
	got, err := implHeader(h).MarshalBinary()
	if err != nil {
		fail("encode", "refused a valid header: "+err.Error())
	} else if !bytes.Equal(got, want) {
		fail("encode", fmt.Sprintf("bytes differ at offset %d: got %x want %x", firstDiff(got, want), got, want))
	}
	var d tq.Header
	if err := d.UnmarshalBinary(want); err != nil {
		fail("decode", "refused RFC-laid-out header: "+err.Error())
		return
	}
	wantFlags := h.Flags
	if h.Seq == 2 {
		wantFlags |= 0x04 // documented: single-connect turned on when decoding sequence 2
	}
	if d.Version.MajorVersion != h.Version>>4 || d.Version.MinorVersion != h.Version&0xf || byte(d.Type) != h.Type ||
		uint16(d.SeqNo) != uint16(h.Seq) || byte(d.Flags) != wantFlags || uint32(d.SessionID) != h.Session || d.Length != h.Length {
		fail("decode", fmt.Sprintf("decoded fields differ: %+v", d))
	}
}

func c01Packet(c *Ctx, h ref.Header, n int) {
	c.R.Eval()
	h.Length = uint32(n)
	body := fill('b', n, false)
	want := append(h.Encode(), body...)
	c.R.Distinct(evid.Hash("pkt", n))
	fail := func(what string) {
		hh := h
		c.R.Violate("Packet/"+firstWord(what), fmt.Sprintf("packet with %d body bytes: %s", n, what), c01Case{Kind: "packet", Header: &hh, BodyN: n})
	}
	p := tq.NewPacket(tq.SetPacketHeader(implHeader(h)), tq.SetPacketBody(append([]byte{}, body...)))
	got, err := p.MarshalBinary()
	if err != nil {
		fail("encode refused: " + err.Error())
	} else if !bytes.Equal(got, want) {
		fail(fmt.Sprintf("bytes differ at offset %d", firstDiff(got, want)))
	}
	var d tq.Packet
	if err := d.UnmarshalBinary(append([]byte{}, want...)); err != nil {
		fail("decode refused: " + err.Error())
		return
	}
	if !bytes.Equal(d.Body, body) || d.Header == nil || d.Header.Length != uint32(n) {
		fail("decoded body differs")
	}
}

func c01Replay(c *Ctx, raw json.RawMessage) {
	var cs c01Case
	if err := json.Unmarshal(raw, &cs); err != nil {
		panic(err)
	}
	switch cs.Kind {
	case "body":
		l, m := msgFromJSON(*cs.Msg)
		c01Body(c, specByName(l.Name), m)
	case "reuse":
		l, m := msgFromJSON(*cs.Msg)
		delete(c01Used, l.Name)
		c01Body(c, specByName(l.Name), m)
		l, m = msgFromJSON(*cs.Then)
		c01Body(c, specByName(l.Name), m)
	case "retain":
		c01Held = nil
		l, m := msgFromJSON(*cs.Msg)
		c01Body(c, specByName(l.Name), m)
		l, m = msgFromJSON(*cs.Then)
		c01Body(c, specByName(l.Name), m)
	case "header":
		c01Header(c, *cs.Header)
	case "packet":
		c01Packet(c, *cs.Header, cs.BodyN)
	}
}
