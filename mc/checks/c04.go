package checks

import (
	"bytes"
	"encoding/json"
	"fmt"
	"runtime"
	"time"

	tq "github.com/facebookincubator/tacquito"

	"verif/mc/evid"
	"verif/mc/ref"
)

// C04: decoding arbitrary bytes is total, memory-safe and bounded.

func init() {
	Registry["C04"] = &Check{
		Spec: func(tier string) evid.Spec {
			return evid.Spec{ID: "C04", Level: "exploration", Exhaustive: true,
				Rule: "inputs = for a corpus of valid encodings of every body type (boundary text lengths x argument shapes): every prefix, every single-octet corruption of every offset in the fixed part and length table " +
					"(values 0,1,2,0x7f,0x80,0xff,orig+1,orig-1) and of sampled payload offsets, every (length octet raised, tail truncated) pair; plus every byte string of length <=4 over {0,1,0xff}, " +
					"every fixed-part/length-octet combination over {0,1,2,255} with 0..3 trailing bytes; plus packets/headers with every lying length field. Every input is given to all nine decoders and to Request.Fields, " +
					"three times into fresh values (exact-capacity slice, and twice with 64 bytes of spare capacity) and, when accepted, once more into a long-lived destination that earlier inputs were decoded into (same value required) filled with two different patterns (results must not depend on the spare bytes). " +
					"a decoder or Request.Fields call that has not returned after 60 s (they take microseconds) is a no-return violation recorded by a watchdog. distinct_nontrivial counts distinct (decoder, input) pairs where the input is not a valid encoding for that decoder",
				Assumptions: []string{"allocation is measured with runtime.MemStats.TotalAlloc around single decodes in a worker that runs nothing else; bound 16*len(input)+16KiB for the decoders, 32*len(input)+32KiB for Request.Fields (which renders every field as text)"}}
		},
		Workers: constInt(16, 16),
		Run:     c04Run,
		Replay:  c04Replay,
	}
}

type c04Case struct {
	Decoder string `json:"decoder"`
	Input   string `json:"input_hex"`
	// Prev: the input the long-lived destination was decoded into before this one (decode-into-used cases)
	Prev string `json:"previous_input,omitempty"`
}

var decoderNames = []string{"AuthenStart", "AuthenReply", "AuthenContinue", "AuthorRequest", "AuthorReply", "AcctRequest", "AcctReply", "Header", "Packet"}

func newDecoder(name string) tq.EncoderDecoder {
	switch name {
	case "Header":
		return &tq.Header{}
	case "Packet":
		return &tq.Packet{}
	}
	return emptyImpl(layoutByName(name))
}

// corpus returns valid encodings per body type used as seeds for mutation.
func c04Corpus(quick bool) (out [][]byte) {
	for _, s := range layoutSpecs {
		var doms [][]int
		for _, t := range s.Texts {
			if t.Wide {
				doms = append(doms, tierPick(quick, []int{0, 3, 300}, []int{0, 1, 3, 255, 256, 300}))
			} else {
				doms = append(doms, tierPick(quick, []int{0, 3}, []int{0, 1, 3, 255}))
			}
		}
		shapes := []argShape{nil}
		if s.HasArgs {
			shapes = []argShape{nil, {2}, {3, 9}, {2, 2, 2, 40}}
			if s.ArgMin == 0 {
				shapes = append(shapes, argShape{0}, argShape{0, 1})
			}
			if !quick {
				shapes = append(shapes, rep(255, 2), argShape{255, 255})
			}
		}
		sizes := make([]int, len(doms))
		for i := range doms {
			sizes[i] = len(doms[i])
		}
		vals := make([]int, len(s.Enums))
		for i, e := range s.Enums {
			vals[i] = e.Valid[0]
		}
		for _, shape := range shapes {
			forEachCombo(sizes, func(idx []int) bool {
				lens := make([]int, len(idx))
				for i := range idx {
					lens[i] = doms[i][idx[i]]
				}
				b, _ := s.L.Encode(build(s, vals, lens, shape))
				out = append(out, b)
				return true
			})
		}
	}
	return out
}

// c04Inputs streams every malformed/mutated input derived from the corpus and the small exhaustive sets.
func c04Inputs(c *Ctx, quick bool, emit func(in []byte)) {
	job := 0
	corpus := c04Corpus(quick)
	for _, e := range corpus {
		job++
		if !c.Mine(job) {
			continue
		}
		emit(e)
		// every prefix (for long encodings: every prefix up to 80, then a stride, then the last 4)
		for k := 0; k < len(e); k++ {
			if k > 80 && k < len(e)-4 && k%61 != 0 {
				continue
			}
			emit(e[:k])
		}
		// corruptions
		limit := len(e)
		for off := 0; off < limit; off++ {
			if off > 24 && off%37 != 0 && off < len(e)-2 {
				continue
			}
			o := e[off]
			for _, v := range []byte{0, 1, 2, 0x7f, 0x80, 0xff, o + 1, o - 1} {
				if v == o {
					continue
				}
				m := append([]byte{}, e...)
				m[off] = v
				emit(m)
			}
		}
		// length octet raised, tail truncated
		hi := 12
		if hi > len(e) {
			hi = len(e)
		}
		for off := 0; off < hi; off++ {
			for _, d := range []byte{1, 2, 100} {
				for _, t := range []int{0, 1, 2} {
					if t > len(e)-off-1 {
						continue
					}
					m := append([]byte{}, e[:len(e)-t]...)
					m[off] += d
					emit(m)
				}
			}
		}
	}
	// exhaustive small strings
	job++
	if c.Mine(job) {
		alpha := []byte{0, 1, 0xff}
		for n := 0; n <= 4; n++ {
			sizes := make([]int, n)
			for i := range sizes {
				sizes[i] = 3
			}
			if n == 0 {
				emit([]byte{})
				continue
			}
			forEachCombo(sizes, func(idx []int) bool {
				b := make([]byte, n)
				for i := range idx {
					b[i] = alpha[idx[i]]
				}
				emit(b)
				return true
			})
		}
	}
	// fixed part x length octets over {0,1,2,255} with 0..3 trailing bytes: 9 leading octets, the rest position bytes
	lv := []byte{0, 1, 2, 255}
	for a0 := 0; a0 < 4; a0++ {
		job++
		if !c.Mine(job) {
			continue
		}
		forEachCombo([]int{4, 4, 4, 4, 4}, func(idx []int) bool {
			for trail := 0; trail <= 3; trail++ {
				b := []byte{1, 1, 1, lv[a0], lv[idx[0]], lv[idx[1]], lv[idx[2]], lv[idx[3]], lv[idx[4]]}
				b = append(b, fill('t', trail, true)...)
				emit(b)
			}
			return true
		})
	}
	// packets and headers with lying length fields
	job++
	if c.Mine(job) {
		for _, ln := range []uint32{0, 1, 4, 5, 6, 100, 65535, 65536, 65537, 0x7fffffff, 0xffffffff} {
			for _, actual := range []int{0, 1, 5, 99, 100, 101} {
				for _, seq := range []byte{0, 1, 2, 255} {
					for _, ver := range []byte{0xc0, 0xc1, 0xc2, 0xb0, 0} {
						h := ref.Header{Version: ver, Type: 1, Seq: seq, Flags: 0, Session: 7, Length: ln}
						emit(append(h.Encode(), fill('z', actual, false)...))
					}
				}
			}
		}
		{
			actuals := []int{65535, 65536, 65537}
			if !quick {
				actuals = append(actuals, 65548, 69632)
			}
			for _, actual := range actuals {
				for _, ln := range []uint32{65535, 65536, 65537, uint32(actual)} {
					h := ref.Header{Version: 0xc0, Type: 3, Seq: 1, Session: 9, Length: ln}
					emit(append(h.Encode(), fill('z', actual, false)...))
				}
			}
		}
	}
}

// c04Used: per decoder, one long-lived destination every accepted input is decoded into as well.
var c04Used = map[string]tq.EncoderDecoder{}
var c04UsedIn = map[string]string{}

type decodeOutcome struct {
	panicked string
	err      error
	val      tq.EncoderDecoder
}

func decodeOnce(name string, in []byte) decodeOutcome {
	v := newDecoder(name)
	var o decodeOutcome
	o.panicked = safely(func() { o.err = v.UnmarshalBinary(in) })
	o.val = v
	return o
}

// withSpare copies in into a slice with 64 spare bytes of capacity holding pat.
func withSpare(in []byte, pat byte) []byte {
	buf := make([]byte, len(in)+64)
	copy(buf, in)
	for i := len(in); i < len(buf); i++ {
		buf[i] = pat
	}
	return buf[:len(in)]
}

func render(name string, v tq.EncoderDecoder) string {
	switch t := v.(type) {
	case *tq.Header:
		return fmt.Sprintf("%+v", *t)
	case *tq.Packet:
		if t.Header == nil {
			return fmt.Sprintf("nil-header body=%x", t.Body)
		}
		return fmt.Sprintf("%+v body=%x", *t.Header, t.Body)
	}
	m := fromImpl(v)
	return fmt.Sprintf("%v %x %x", m.N, m.S, m.Args)
}

func c04One(c *Ctx, name string, in []byte, measure bool) {
	c.R.Eval()
	cs := c04Case{Decoder: name, Input: fmt.Sprintf("%x", in)}
	// a fatal error of the runtime (stack overflow, out of memory) cannot be recovered: written ahead for the parent; a
	// decoder that never returns is seen by the watchdog (decoding at most 64 KiB takes microseconds)
	c.CurGuard(cs, name+"/no-return", fmt.Sprintf("%s did not return on a %d-byte input", name, len(in)), 60*time.Second)
	defer c.Unguard()
	fail := func(kind, what string) {
		c.R.Violate(name+"/"+kind, fmt.Sprintf("%s on %d-byte input: %s", name, len(in), what), cs)
	}
	exact := append(make([]byte, 0, len(in)), in...)
	var before, after runtime.MemStats
	if measure {
		runtime.ReadMemStats(&before)
	}
	o := decodeOnce(name, exact)
	if measure {
		runtime.ReadMemStats(&after)
		if d := after.TotalAlloc - before.TotalAlloc; d > uint64(16*len(in)+16*1024) {
			fail("alloc", fmt.Sprintf("allocated %d bytes", d))
		}
	}
	a := decodeOnce(name, withSpare(in, 0xee))
	b := decodeOnce(name, withSpare(in, 0x11))
	if o.panicked != "" || a.panicked != "" || b.panicked != "" {
		fail("panic", "decoder panicked: "+o.panicked+a.panicked+b.panicked)
		return
	}
	if (a.err == nil) != (b.err == nil) || (a.err == nil) != (o.err == nil) {
		fail("overread", "success depends on bytes beyond the end of the input")
		return
	}
	if o.err != nil {
		c.R.Distinct(evid.Hash(name, in))
		c.R.Count("rejected", 1)
		return
	}
	ra, rb, ro := render(name, a.val), render(name, b.val), render(name, o.val)
	if ra != rb || ra != ro {
		fail("overread", "decoded value depends on bytes beyond the end of the input: "+ra+" vs "+rb)
		return
	}
	c.R.Count("accepted", 1)
	// the same bytes decoded into a destination that earlier decodes have used yield the same value: nothing the
	// destination held before may survive into a value returned without error
	if used := c04Used[name]; used != nil {
		var uerr error
		if p := safely(func() { uerr = used.UnmarshalBinary(append(make([]byte, 0, len(in)), in...)) }); p != "" {
			fail("panic", "decoder panicked when decoding into a used destination: "+p)
			return
		}
		if uerr != nil {
			cs.Prev = c04UsedIn[name]
			fail("used-destination", "input accepted by a fresh destination is refused by one that was decoded into before: "+uerr.Error())
		} else if ru := render(name, used); ru != ro {
			cs.Prev = c04UsedIn[name]
			fail("fabricated", "decoded into a destination that was used before, the value differs from a fresh decode (bytes that are not in the input): "+trunc(ru, 300)+" vs "+trunc(ro, 300))
		}
	} else {
		c04Used[name] = newDecoder(name)
		c04Used[name].UnmarshalBinary(append(make([]byte, 0, len(in)), in...))
	}
	c04UsedIn[name] = cs.Input
	// accepted: must satisfy the type's own validation and be made of input bytes
	switch t := o.val.(type) {
	case *tq.Header:
		if err := t.Validate(); err != nil {
			fail("invalid", "accepted header fails its own validation: "+err.Error())
		}
		// independent restatement of the header rules, the 65536-byte body cap included
		if rh := ref.DecodeHeader(in); !rh.Valid() {
			fail("invalid", fmt.Sprintf("accepted header %+v breaks the header rules (version 0xc0/0xc1, type 1..3, sequence >= 1, length <= 65536)", rh))
		}
	case *tq.Packet:
		if t.Header == nil {
			fail("invalid", "accepted packet has no header")
			return
		}
		if len(t.Body) > 65536 || t.Header.Length > 65536 {
			fail("invalid", fmt.Sprintf("accepted packet carries a body of %d bytes (length field %d): a packet body is capped at 65536 bytes", len(t.Body), t.Header.Length))
			return
		}
		if rh := ref.DecodeHeader(in); !rh.Valid() {
			fail("invalid", fmt.Sprintf("accepted packet has header %+v which breaks the header rules", rh))
		}
		if 12+int(t.Header.Length) > len(in) || !bytes.Equal(t.Body, in[12:12+int(t.Header.Length)]) {
			fail("overread", fmt.Sprintf("packet body is not the %d announced bytes inside the input", t.Header.Length))
		}
		if int(t.Header.Length) != len(in)-12 {
			c.R.Distinct(evid.Hash(name, in))
		}
	default:
		type validator interface{ Validate() error }
		if err := o.val.(validator).Validate(); err != nil {
			fail("invalid", "accepted value fails its own validation: "+err.Error())
		}
		m := fromImpl(o.val)
		total := 0
		for k, f := range m.S {
			total += len(f)
			if !bytes.Contains(in, f) {
				fail("fabricated", "field "+k+" is not a substring of the input")
			}
		}
		for _, f := range m.Args {
			total += len(f)
			if !bytes.Contains(in, f) {
				fail("fabricated", "an argument is not a substring of the input")
			}
		}
		l := layoutByName(name)
		if total+l.Fixed > len(in)+1 { // AuthenReply's documented 5-byte minimum leaves one length octet implicit
			fail("fabricated", fmt.Sprintf("decoded %d field bytes from a %d-byte input", total, len(in)))
		}
		if _, cl := l.Decode(in); cl != ref.Exact {
			c.R.Distinct(evid.Hash(name, in))
		}
		// independent restatement of the enum rules
		sp := specByName(name)
		for _, e := range sp.Enums {
			ok := false
			for _, v := range e.Valid {
				if v == m.N[e.Name] {
					ok = true
				}
			}
			if !ok {
				fail("invalid", fmt.Sprintf("accepted value has %s=%d outside its enumeration", e.Name, m.N[e.Name]))
			}
		}
	}
}

func c04Fields(c *Ctx, in []byte) {
	for typ := 1; typ <= 3; typ++ {
		c.R.Eval()
		c.CurGuard(c04Case{Decoder: fmt.Sprintf("Fields%d", typ), Input: fmt.Sprintf("%x", in)}, fmt.Sprintf("Request.Fields%d/no-return", typ),
			fmt.Sprintf("Request.Fields (type %d) did not return on a %d-byte body", typ, len(in)), 60*time.Second)
		req := tq.Request{Header: tq.Header{Type: tq.HeaderType(typ)}, Body: append(make([]byte, 0, len(in)), in...)}
		var before, after runtime.MemStats
		runtime.ReadMemStats(&before)
		pn := safely(func() { req.Fields() })
		runtime.ReadMemStats(&after)
		if d := after.TotalAlloc - before.TotalAlloc; pn == "" && d > uint64(32*len(in)+32*1024) {
			c.R.Violate("Request.Fields/alloc", fmt.Sprintf("Request.Fields allocated %d bytes for a %d-byte body of type %d (more than 32x the input + 32 KiB)", d, len(in), typ), c04Case{Decoder: fmt.Sprintf("Fields%d", typ), Input: fmt.Sprintf("%x", in)})
		}
		if p := pn; p != "" {
			c.R.Violate("Request.Fields/panic", fmt.Sprintf("Request.Fields panicked on type %d: %s", typ, p), c04Case{Decoder: fmt.Sprintf("Fields%d", typ), Input: fmt.Sprintf("%x", in)})
		}
	}
	c.Unguard()
}

func c04Run(c *Ctx) {
	n := 0
	c04Inputs(c, c.Quick, func(in []byte) {
		n++
		for _, name := range decoderNames {
			// allocation is measured on every input for the packet and header decoders (a lying length field is
			// their whole attack surface) and on every 8th input for the body decoders
			c04One(c, name, in, name == "Packet" || name == "Header" || n%8 == 0)
		}
		c04Fields(c, in)
		if n%5000 == 1 {
			c.R.SampleCap(5, map[string]interface{}{"input_hex": hx(in), "note": "fed to all nine decoders and Request.Fields"})
		}
	})
}

func c04Replay(c *Ctx, raw json.RawMessage) {
	var cs c04Case
	if err := json.Unmarshal(raw, &cs); err != nil {
		panic(err)
	}
	var in []byte
	fmt.Sscanf(cs.Input, "%x", &in)
	if in == nil {
		in = []byte{}
	}
	if len(cs.Decoder) > 6 && cs.Decoder[:6] == "Fields" {
		c04Fields(c, in)
		return
	}
	if cs.Prev != "" {
		var prev []byte
		fmt.Sscanf(cs.Prev, "%x", &prev)
		c04Used[cs.Decoder] = newDecoder(cs.Decoder)
		c04Used[cs.Decoder].UnmarshalBinary(prev)
	}
	c04One(c, cs.Decoder, in, true)
}
