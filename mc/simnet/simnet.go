// Package simnet is the scripted network: a net.Conn whose Read returns exactly the chunk the
// driver decided (or an injected EOF / timeout), whose writes, deadlines and Close are logged,
// and a listener that hands out the connections the driver queues. Driver and server side
// alternate strictly (driver acts, then waits until the server side is parked in Read or has
// closed), so runs are deterministic although they use real goroutines.
package simnet

import (
	"errors"
	"io"
	"net"
	"sync"
	"time"
)

// EventKind labels a logged call.
type EventKind int

const (
	EvWrite EventKind = iota
	EvClose
	EvReadDeadline
	EvDeadline
	EvWriteDeadline
	EvRead     // a Read call that returned data/err
	EvReadPark // a Read call that found nothing and parked
)

// Event is one logged call on a connection.
type Event struct {
	Seq  int64 // global order within the clock
	Kind EventKind
	Data []byte
	T    time.Time
	Err  string
}

// Clock orders events across connections of one world.
type Clock struct {
	mu sync.Mutex
	n  int64
}

// Tick returns the next global event index.
func (c *Clock) Tick() int64 { c.mu.Lock(); c.n++; v := c.n; c.mu.Unlock(); return v }

// Now returns the current index without advancing.
func (c *Clock) Now() int64 { c.mu.Lock(); defer c.mu.Unlock(); return c.n }

type item struct {
	data []byte
	err  error
}

// TimeoutErr is what a fired deadline looks like.
type TimeoutErr struct{}

func (TimeoutErr) Error() string   { return "i/o timeout (simnet)" }
func (TimeoutErr) Timeout() bool   { return true }
func (TimeoutErr) Temporary() bool { return true }

// Conn is the server side of a scripted connection.
type Conn struct {
	mu      sync.Mutex
	cond    *sync.Cond
	clock   *Clock
	queue   []item
	waiting bool
	closed  bool
	remote  net.Addr
	local   net.Addr
	Log     []Event
	out     []byte // bytes written and not yet taken
	reads   int64
	// WriteErr, when set, is returned by Write.
	WriteErr error
	// stalled: the client is not reading (Write blocks); writeBlocked: the server side is blocked in Write right now
	stalled      bool
	writeBlocked bool
	// wdeadline: a finite write deadline is armed (SetDeadline / SetWriteDeadline with a non-zero time)
	wdeadline  bool
	tornWrites int
}

// NewConn makes a connection with the given remote address.
func NewConn(clock *Clock, remote net.Addr) *Conn {
	if clock == nil {
		clock = &Clock{}
	}
	c := &Conn{clock: clock, remote: remote, local: &net.TCPAddr{IP: net.IPv4(192, 0, 2, 1), Port: 49}}
	c.cond = sync.NewCond(&c.mu)
	return c
}

func (c *Conn) log(k EventKind, data []byte, t time.Time, err string) {
	c.Log = append(c.Log, Event{Seq: c.clock.Tick(), Kind: k, Data: data, T: t, Err: err})
}

// Read returns the next scripted chunk (cut to len(p) if larger), an injected error, or parks.
func (c *Conn) Read(p []byte) (int, error) {
	c.mu.Lock()
	defer c.mu.Unlock()
	c.reads++
	parked := false
	for len(c.queue) == 0 && !c.closed {
		if !parked {
			parked = true
			c.log(EvReadPark, nil, time.Time{}, "")
		}
		c.waiting = true
		c.cond.Broadcast()
		c.cond.Wait()
	}
	c.waiting = false
	if c.closed {
		c.log(EvRead, nil, time.Time{}, "closed")
		return 0, net.ErrClosed
	}
	it := c.queue[0]
	if it.err != nil {
		c.queue = c.queue[1:]
		c.log(EvRead, nil, time.Time{}, it.err.Error())
		return 0, it.err
	}
	n := copy(p, it.data)
	if n < len(it.data) {
		c.queue[0].data = it.data[n:]
	} else {
		c.queue = c.queue[1:]
	}
	c.log(EvRead, append([]byte{}, p[:n]...), time.Time{}, "")
	return n, nil
}

// StallWrites makes the client stop reading: from now on Write blocks (as it does once the peer's receive window and
// the local send buffer are full) until ReleaseWrites or Close.
func (c *Conn) StallWrites() {
	c.mu.Lock()
	c.stalled = true
	c.mu.Unlock()
}

// ReleaseWrites lets blocked and future writes through again.
func (c *Conn) ReleaseWrites() {
	c.mu.Lock()
	c.stalled = false
	c.cond.Broadcast()
	c.mu.Unlock()
}

// WaitSettled blocks until the server side is blocked in Write on a stalled connection, parked in Read with nothing
// queued, or has closed the connection; ok=false on timeout.
func (c *Conn) WaitSettled(d time.Duration) (writeBlocked, ok bool) {
	done := make(chan bool, 1)
	go func() {
		c.mu.Lock()
		defer c.mu.Unlock()
		for !(c.closed || c.writeBlocked || (c.waiting && len(c.queue) == 0)) {
			c.cond.Wait()
		}
		done <- c.writeBlocked
	}()
	select {
	case wb := <-done:
		return wb, true
	case <-time.After(d):
		return false, false
	}
}

// Write logs and swallows the bytes.
func (c *Conn) Write(p []byte) (int, error) {
	c.mu.Lock()
	defer c.mu.Unlock()
	if c.stalled && !c.closed && c.wdeadline {
		// the peer is not reading and a write deadline is armed: as on a real socket, part of the data has left when the
		// deadline expires and the call reports a timeout for the rest
		n := len(p) / 2
		if n == 0 && len(p) > 0 {
			n = 1
		}
		b := append([]byte{}, p[:n]...)
		c.log(EvWrite, b, time.Time{}, "timeout after a partial write")
		c.out = append(c.out, b...)
		c.tornWrites++
		return n, TimeoutErr{}
	}
	for c.stalled && !c.closed {
		c.writeBlocked = true
		c.cond.Broadcast()
		c.cond.Wait()
	}
	c.writeBlocked = false
	if c.closed {
		return 0, net.ErrClosed
	}
	if c.WriteErr != nil {
		return 0, c.WriteErr
	}
	b := append([]byte{}, p...)
	c.log(EvWrite, b, time.Time{}, "")
	c.out = append(c.out, b...)
	return len(p), nil
}

// Close marks the connection closed and wakes a parked reader.
func (c *Conn) Close() error {
	c.mu.Lock()
	defer c.mu.Unlock()
	if c.closed {
		return net.ErrClosed
	}
	c.closed = true
	c.log(EvClose, nil, time.Time{}, "")
	c.cond.Broadcast()
	return nil
}

// LocalAddr ...
func (c *Conn) LocalAddr() net.Addr { return c.local }

// RemoteAddr ...
func (c *Conn) RemoteAddr() net.Addr { return c.remote }

// SetDeadline logs.
func (c *Conn) SetDeadline(t time.Time) error {
	c.mu.Lock()
	c.wdeadline = !t.IsZero()
	c.log(EvDeadline, nil, t, "")
	c.mu.Unlock()
	return nil
}

// SetReadDeadline logs.
func (c *Conn) SetReadDeadline(t time.Time) error {
	c.mu.Lock()
	c.log(EvReadDeadline, nil, t, "")
	c.mu.Unlock()
	return nil
}

// SetWriteDeadline logs.
func (c *Conn) SetWriteDeadline(t time.Time) error {
	c.mu.Lock()
	c.wdeadline = !t.IsZero()
	c.log(EvWriteDeadline, nil, t, "")
	c.mu.Unlock()
	return nil
}

// ---- driver side ----

// Feed queues chunks for Read; each chunk is delivered by exactly one Read (or several if larger than the buffer offered).
func (c *Conn) Feed(chunks ...[]byte) {
	c.mu.Lock()
	for _, ch := range chunks {
		if len(ch) == 0 {
			continue
		}
		c.queue = append(c.queue, item{data: append([]byte{}, ch...)})
	}
	c.cond.Broadcast()
	c.mu.Unlock()
}

// FeedErr queues an error for Read (io.EOF for a client close, TimeoutErr{} for a fired deadline).
func (c *Conn) FeedErr(err error) {
	c.mu.Lock()
	c.queue = append(c.queue, item{err: err})
	c.cond.Broadcast()
	c.mu.Unlock()
}

// FeedEOF queues a client-side close.
func (c *Conn) FeedEOF() { c.FeedErr(io.EOF) }

// WaitIdle blocks until the server side is parked in Read with nothing queued, or has closed the connection.
// It reports whether the connection is closed.
func (c *Conn) WaitIdle() (closed bool) {
	c.mu.Lock()
	defer c.mu.Unlock()
	for !(c.closed || (c.waiting && len(c.queue) == 0)) {
		c.cond.Wait()
	}
	return c.closed
}

// WaitIdleTimeout is WaitIdle with a wall-clock guard against a hung server side; ok=false on timeout.
func (c *Conn) WaitIdleTimeout(d time.Duration) (closed, ok bool) {
	done := make(chan bool, 1)
	go func() { done <- c.WaitIdle() }()
	select {
	case cl := <-done:
		return cl, true
	case <-time.After(d):
		return false, false
	}
}

// TornWrites reports how many writes ended in a timeout after part of their data had been written.
func (c *Conn) TornWrites() int { c.mu.Lock(); defer c.mu.Unlock(); return c.tornWrites }

// Closed reports whether Close was called.
func (c *Conn) Closed() bool { c.mu.Lock(); defer c.mu.Unlock(); return c.closed }

// Peek returns a copy of the bytes written since the previous Take without clearing them.
func (c *Conn) Peek() []byte {
	c.mu.Lock()
	defer c.mu.Unlock()
	return append([]byte{}, c.out...)
}

// Take returns and clears the bytes written since the previous Take.
func (c *Conn) Take() []byte {
	c.mu.Lock()
	defer c.mu.Unlock()
	b := c.out
	c.out = nil
	return b
}

// Reads returns the number of Read calls so far.
func (c *Conn) Reads() int64 { c.mu.Lock(); defer c.mu.Unlock(); return c.reads }

// Events returns a copy of the log.
func (c *Conn) Events() []Event {
	c.mu.Lock()
	defer c.mu.Unlock()
	return append([]Event{}, c.Log...)
}

// Pending reports queued, undelivered items.
func (c *Conn) Pending() int { c.mu.Lock(); defer c.mu.Unlock(); return len(c.queue) }

// ---- listener ----

// Listener implements tacquito.DeadlineListener.
type Listener struct {
	mu        sync.Mutex
	cond      *sync.Cond
	conns     []net.Conn
	errs      []error
	closed    bool
	waiting   bool
	Accepts   int
	Closes    int
	Deadlines []time.Time
	Clock     *Clock
	CloseSeq  int64
}

// NewListener makes an empty listener.
func NewListener(clock *Clock) *Listener {
	if clock == nil {
		clock = &Clock{}
	}
	l := &Listener{Clock: clock}
	l.cond = sync.NewCond(&l.mu)
	return l
}

// Accept hands out the next queued connection or error; parks when nothing is queued.
func (l *Listener) Accept() (net.Conn, error) {
	l.mu.Lock()
	defer l.mu.Unlock()
	for len(l.conns) == 0 && len(l.errs) == 0 && !l.closed {
		l.waiting = true
		l.cond.Broadcast()
		l.cond.Wait()
	}
	l.waiting = false
	if len(l.errs) > 0 {
		e := l.errs[0]
		l.errs = l.errs[1:]
		return nil, e
	}
	if l.closed {
		return nil, &net.OpError{Op: "accept", Net: "sim", Err: errors.New("use of closed network connection")}
	}
	c := l.conns[0]
	l.conns = l.conns[1:]
	l.Accepts++
	return c, nil
}

// Close ...
func (l *Listener) Close() error {
	l.mu.Lock()
	defer l.mu.Unlock()
	l.closed = true
	l.Closes++
	l.CloseSeq = l.Clock.Tick()
	l.cond.Broadcast()
	return nil
}

// Addr ...
func (l *Listener) Addr() net.Addr { return &net.TCPAddr{IP: net.IPv4(192, 0, 2, 1), Port: 49} }

// SetDeadline logs.
func (l *Listener) SetDeadline(t time.Time) error {
	l.mu.Lock()
	l.Deadlines = append(l.Deadlines, t)
	l.mu.Unlock()
	return nil
}

// Push queues a connection for Accept.
func (l *Listener) Push(c net.Conn) {
	l.mu.Lock()
	l.conns = append(l.conns, c)
	l.cond.Broadcast()
	l.mu.Unlock()
}

// PushErr queues an Accept error.
func (l *Listener) PushErr(e error) {
	l.mu.Lock()
	l.errs = append(l.errs, e)
	l.cond.Broadcast()
	l.mu.Unlock()
}

// PushTimeout makes the next Accept return a temporary timeout error (a fired accept deadline).
func (l *Listener) PushTimeout() {
	l.PushErr(&net.OpError{Op: "accept", Net: "sim", Err: TimeoutErr{}})
}

// WaitParked blocks until Accept is parked with nothing queued (or the listener is closed).
func (l *Listener) WaitParked() {
	l.mu.Lock()
	defer l.mu.Unlock()
	for !(l.closed || (l.waiting && len(l.conns) == 0 && len(l.errs) == 0)) {
		l.cond.Wait()
	}
}

// IsClosed ...
func (l *Listener) IsClosed() bool { l.mu.Lock(); defer l.mu.Unlock(); return l.closed }
