// Command verif runs one property check: verif check|replay|worker <id> ...
package main

import (
	"os"

	"verif/mc/checks"
)

func main() { os.Exit(checks.Main(os.Args[1:])) }
