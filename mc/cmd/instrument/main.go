// Command instrument rewrites a scratch copy of the repository for the controlled scheduler (engine E2):
//
//   - import "sync" -> the vsyncrt runtime (same type and method names) in the in-scope files;
//   - go f(a, b) -> arguments evaluated, then vsyncrt.Go(func() { f(a, b) });
//   - time.Now() -> vsyncrt.Now() in server.go;
//   - in the loader files: chan T -> *vsyncrt.Chan[T], make/close/send/receive/select on channels -> method
//     calls and vsyncrt.Select; a receive from X.Done() stays a real channel (polled);
//   - statement-level scheduling points vsyncrt.P() in the functions named by -points.
//
// Anything it does not understand makes it exit non-zero: a check built on a partial rewrite would be unsound.
package main

import (
	"bytes"
	"flag"
	"fmt"
	"go/ast"
	"go/format"
	"go/parser"
	"go/token"
	"os"
	"path/filepath"
	"strconv"
	"strings"
)

const rtPath = "github.com/facebookincubator/tacquito/vsyncrt"

type fileSpec struct {
	path    string
	sync    bool
	gostmt  bool
	now     bool
	chans   bool
	timers  bool     // time.NewTicker/NewTimer/After/AfterFunc/Tick/Sleep become virtual timers (implies chans and now)
	points  []string // function names that get statement-level points
	shallow bool     // points only between the top-level statements of those functions
}

func main() {
	repo := flag.String("repo", "", "scratch copy of the repository")
	rt := flag.String("rt", "", "directory holding the vsyncrt sources")
	flag.Parse()
	if *repo == "" || *rt == "" {
		fail("usage: instrument -repo DIR -rt DIR")
	}
	// copy the runtime into the repository module
	dst := filepath.Join(*repo, "vsyncrt")
	os.MkdirAll(dst, 0o755)
	ents, err := os.ReadDir(*rt)
	if err != nil {
		fail(err.Error())
	}
	for _, e := range ents {
		if strings.HasSuffix(e.Name(), ".go") && !strings.HasSuffix(e.Name(), "_test.go") {
			b, err := os.ReadFile(filepath.Join(*rt, e.Name()))
			if err != nil {
				fail(err.Error())
			}
			if err := os.WriteFile(filepath.Join(dst, e.Name()), b, 0o644); err != nil {
				fail(err.Error())
			}
		}
	}
	specs := []fileSpec{
		{path: "server.go", gostmt: true, now: true},
		{path: "sessions.go", sync: true},
		{path: "cmds/server/loader/loader.go", sync: true, gostmt: true, chans: true, points: []string{"updates"}},
		{path: "cmds/server/loader/yaml/yaml.go", chans: true},
		{path: "cmds/server/loader/json/json.go", chans: true},
		// statement-level scheduling points where requests of different connections touch shared policy data
		{path: "crypt.go", points: []string{"*"}, shallow: true}, // between the steps of crypt/read/write, not inside the byte loops
		{path: "cmds/server/config/types.go", points: []string{"TrimSpace"}},
		{path: "cmds/server/config/authorizers/stringy/command.go", points: []string{"*"}},
		{path: "cmds/server/config/authorizers/stringy/session.go", points: []string{"*"}},
	}
	// every other in-scope file: sync imports, go statements and channels the file declares itself are rewritten
	// automatically; operations on channels that come from elsewhere are not supported (the instrumenter fails loudly)
	specs = append(specs, autoSpecs(*repo, specs)...)
	// sync imports and go statements are detected in every file, listed explicitly or not
	for i := range specs {
		f, err := parser.ParseFile(token.NewFileSet(), filepath.Join(*repo, specs[i].path), nil, 0)
		if err != nil {
			fail(specs[i].path + ": " + err.Error())
		}
		for _, im := range f.Imports {
			if im.Path.Value == `"sync"` {
				specs[i].sync = true
			}
		}
		ast.Inspect(f, func(n ast.Node) bool {
			if _, ok := n.(*ast.GoStmt); ok {
				specs[i].gostmt = true
			}
			return true
		})
		// a file that declares channels of its own is rewritten for channels, listed for it or not
		if usesChans(f) {
			specs[i].chans = true
		}
		if usesTimers(f) {
			specs[i].timers, specs[i].chans, specs[i].now = true, true, true
		}
	}
	for _, sp := range specs {
		if err := rewrite(filepath.Join(*repo, sp.path), sp); err != nil {
			fail(sp.path + ": " + err.Error())
		}
	}
	fmt.Println("instrumented", len(specs), "files")
}

func fail(msg string) {
	fmt.Fprintln(os.Stderr, "instrument: "+msg)
	os.Exit(2)
}

// pointFiles get statement-level scheduling points in all their functions: handler code of different connections
// touches shared policy/sink data without passing through a synchronisation operation, and the race detector treats
// the metric atomics in between as synchronisation.
var pointFiles = map[string]bool{
	"handlers.go":                                        true,
	"cmds/server/handlers/acct.go":                       true,
	"cmds/server/handlers/author.go":                     true,
	"cmds/server/handlers/authen.go":                     true,
	"cmds/server/handlers/authen_ascii.go":               true,
	"cmds/server/handlers/authen_pap.go":                 true,
	"cmds/server/handlers/response_logger.go":            true,
	"cmds/server/config/aaa.go":                          true,
	"cmds/server/config/accounters/local/local.go":       true,
	"cmds/server/config/authenticators/shared.go":        true,
	"cmds/server/config/authenticators/bcrypt/bcrypt.go": true,
	"cmds/server/config/authorizers/stringy/stringy.go":  true,
}

// autoSpecs scans the in-scope files that are not listed explicitly.
func autoSpecs(repo string, specs []fileSpec) []fileSpec {
	listed := map[string]bool{}
	for _, s := range specs {
		listed[s.path] = true
	}
	skipDirs := []string{"cmds/client", "cmds/server/test", "cmds/server/loader/fsnotify", "cmds/server/config/secret/dns", "cmds/server/config/accounters/syslog",
		"cmds/server/exporter", "cmds/server/config/authenticators/bcrypt/generator", "vsyncrt", "proxy"}
	skipFiles := map[string]bool{"cmds/server/main.go": true, "cmds/server/support.go": true, "cmds/server/handlers/span.go": true, "client.go": true, "zz_verif_export.go": true}
	var out []fileSpec
	filepath.Walk(repo, func(p string, info os.FileInfo, err error) error {
		if err != nil || info.IsDir() || !strings.HasSuffix(p, ".go") || strings.HasSuffix(p, "_test.go") {
			return nil
		}
		rel, _ := filepath.Rel(repo, p)
		for _, d := range skipDirs {
			if strings.HasPrefix(rel, d+"/") {
				return nil
			}
		}
		if skipFiles[rel] || listed[rel] || strings.HasPrefix(rel, ".git") {
			return nil
		}
		fset := token.NewFileSet()
		f, err := parser.ParseFile(fset, p, nil, 0)
		if err != nil {
			fail(rel + ": " + err.Error())
		}
		sp := fileSpec{path: rel}
		for _, im := range f.Imports {
			if im.Path.Value == `"sync"` {
				sp.sync = true
			}
		}
		ast.Inspect(f, func(n ast.Node) bool {
			switch n.(type) {
			case *ast.GoStmt:
				sp.gostmt = true
			case *ast.SendStmt:
				if !usesChans(f) {
					fail(rel + " has a channel send but declares no channel that could be rewritten")
				}
			}
			return true
		})
		sp.chans = usesChans(f)
		if usesTimers(f) {
			sp.timers, sp.chans, sp.now = true, true, true
		}
		if pointFiles[rel] {
			sp.points = []string{"*"}
		}
		if sp.sync || sp.gostmt || sp.chans || len(sp.points) > 0 {
			out = append(out, sp)
		}
		return nil
	})
	return out
}

type rewriter struct {
	chanNames map[string]bool // identifiers / field names declared with a channel type in this file
	sp        fileSpec
	fset      *token.FileSet
	needRT    bool
	tmp       int
	errs      []string
}

func (r *rewriter) errorf(pos token.Pos, format string, a ...interface{}) {
	r.errs = append(r.errs, fmt.Sprintf("%s: %s", r.fset.Position(pos), fmt.Sprintf(format, a...)))
}

func rt(name string) ast.Expr {
	return &ast.SelectorExpr{X: ast.NewIdent("vsyncrt"), Sel: ast.NewIdent(name)}
}

func call(fun ast.Expr, args ...ast.Expr) *ast.CallExpr { return &ast.CallExpr{Fun: fun, Args: args} }

func sel(x ast.Expr, name string) ast.Expr { return &ast.SelectorExpr{X: x, Sel: ast.NewIdent(name)} }

func rewrite(path string, sp fileSpec) error {
	fset := token.NewFileSet()
	f, err := parser.ParseFile(fset, path, nil, 0) // comments are dropped: none of the rewritten files carries build constraints
	if err != nil {
		return err
	}
	r := &rewriter{sp: sp, fset: fset, chanNames: map[string]bool{}}
	if sp.chans {
		// a light, name-based inference of which variables and fields are channels (needed for "for v := range ch")
		ast.Inspect(f, func(n ast.Node) bool {
			switch t := n.(type) {
			case *ast.Field:
				if _, ok := t.Type.(*ast.ChanType); ok {
					for _, nm := range t.Names {
						r.chanNames[nm.Name] = true
					}
				}
			case *ast.ValueSpec:
				if _, ok := t.Type.(*ast.ChanType); ok {
					for _, nm := range t.Names {
						r.chanNames[nm.Name] = true
					}
				}
				for i, v := range t.Values {
					if isMakeChan(v) && i < len(t.Names) {
						r.chanNames[t.Names[i].Name] = true
					}
				}
			case *ast.AssignStmt:
				for i, v := range t.Rhs {
					if isMakeChan(v) && i < len(t.Lhs) {
						if id, ok := t.Lhs[i].(*ast.Ident); ok {
							r.chanNames[id.Name] = true
						}
					}
				}
			}
			return true
		})
	}
	if sp.sync {
		found := false
		for _, im := range f.Imports {
			if im.Path.Value == `"sync"` {
				im.Path.Value = strconv.Quote(rtPath)
				im.Name = ast.NewIdent("sync")
				found = true
			}
		}
		if !found {
			return fmt.Errorf("expected an import of sync")
		}
	}
	// rewrite function bodies
	for _, d := range f.Decls {
		switch dd := d.(type) {
		case *ast.FuncDecl:
			if sp.chans {
				r.chanTypesInFieldList(dd.Type.Params)
				r.chanTypesInFieldList(dd.Type.Results)
				if dd.Recv != nil {
					r.chanTypesInFieldList(dd.Recv)
				}
			}
			if dd.Body != nil {
				pts := false
				for _, n := range sp.points {
					if dd.Name.Name == n || n == "*" {
						pts = true
					}
				}
				if pts && sp.shallow {
					r.block(dd.Body, false)
					var out []ast.Stmt
					for _, st := range dd.Body.List {
						r.needRT = true
						out = append(out, &ast.ExprStmt{X: call(rt("P"))}, st)
					}
					dd.Body.List = out
				} else {
					r.block(dd.Body, pts)
				}
			}
		case *ast.GenDecl:
			if sp.chans {
				ast.Inspect(dd, func(n ast.Node) bool { r.chanTypesIn(n); return true })
				for _, spec := range dd.Specs {
					if vs, ok := spec.(*ast.ValueSpec); ok {
						for i := range vs.Values {
							vs.Values[i] = r.expr(vs.Values[i])
						}
					}
				}
			}
		}
	}
	if len(r.errs) > 0 {
		return fmt.Errorf("%s", strings.Join(r.errs, "; "))
	}
	if r.needRT {
		addImport(f, "vsyncrt", rtPath)
	}
	var buf bytes.Buffer
	if err := format.Node(&buf, fset, f); err != nil {
		return err
	}
	if sp.timers {
		// the rewriting may have removed the last use of package time
		buf.WriteString("\nvar _ time.Duration\n")
	}
	// reparse to make sure the result is syntactically valid
	if _, err := parser.ParseFile(token.NewFileSet(), path, buf.Bytes(), 0); err != nil {
		return fmt.Errorf("rewritten file does not parse: %v", err)
	}
	return os.WriteFile(path, buf.Bytes(), 0o644)
}

func addImport(f *ast.File, name, path string) {
	spec := &ast.ImportSpec{Name: ast.NewIdent(name), Path: &ast.BasicLit{Kind: token.STRING, Value: strconv.Quote(path)}}
	for _, d := range f.Decls {
		if gd, ok := d.(*ast.GenDecl); ok && gd.Tok == token.IMPORT {
			gd.Specs = append(gd.Specs, spec)
			if !gd.Lparen.IsValid() {
				gd.Lparen = gd.Pos()
			}
			f.Imports = append(f.Imports, spec)
			return
		}
	}
	gd := &ast.GenDecl{Tok: token.IMPORT, Specs: []ast.Spec{spec}}
	f.Decls = append([]ast.Decl{gd}, f.Decls...)
}

// chan T -> *vsyncrt.Chan[T] wherever a type expression may sit
func (r *rewriter) chanType(e ast.Expr) ast.Expr {
	if ct, ok := e.(*ast.ChanType); ok {
		// <-chan T and chan<- T become the same shim type: direction only restricts what compiles, and a program that
		// compiled keeps compiling when the restriction is dropped (a real channel flowing into such a type does not)
		r.needRT = true
		return &ast.StarExpr{X: &ast.IndexExpr{X: rt("Chan"), Index: r.chanType(ct.Value)}}
	}
	if r.sp.timers {
		if st, ok := e.(*ast.StarExpr); ok {
			if nt, ok := timeType(st.X); ok {
				r.needRT = true
				st.X = nt
			}
		} else if nt, ok := timeType(e); ok {
			r.needRT = true
			return nt
		}
	}
	return e
}

func (r *rewriter) chanTypesInFieldList(fl *ast.FieldList) {
	if fl == nil {
		return
	}
	for _, fld := range fl.List {
		fld.Type = r.chanType(fld.Type)
	}
}

func (r *rewriter) chanTypesIn(n ast.Node) {
	switch t := n.(type) {
	case *ast.Field:
		t.Type = r.chanType(t.Type)
	case *ast.ValueSpec:
		if t.Type != nil {
			t.Type = r.chanType(t.Type)
		}
	case *ast.FuncType:
		r.chanTypesInFieldList(t.Params)
		r.chanTypesInFieldList(t.Results)
	case *ast.CompositeLit:
		if t.Type != nil {
			t.Type = r.chanType(t.Type)
		}
	}
}

// block rewrites the statements of a block in place.
func (r *rewriter) block(b *ast.BlockStmt, points bool) {
	b.List = r.stmts(b.List, points)
}

func (r *rewriter) stmts(list []ast.Stmt, points bool) []ast.Stmt {
	var out []ast.Stmt
	for _, s := range list {
		ns := r.stmt(s, points)
		if points {
			r.needRT = true
			out = append(out, &ast.ExprStmt{X: call(rt("P"))})
		}
		out = append(out, ns...)
	}
	return out
}

func (r *rewriter) stmt(s ast.Stmt, points bool) []ast.Stmt {
	switch t := s.(type) {
	case *ast.GoStmt:
		if !r.sp.gostmt {
			r.errorf(t.Pos(), "go statement in a file not marked for goroutine rewriting")
			return []ast.Stmt{s}
		}
		r.needRT = true
		if fl, ok := t.Call.Fun.(*ast.FuncLit); ok && len(t.Call.Args) == 0 {
			r.block(fl.Body, points)
			r.exprsIn(fl)
			return []ast.Stmt{&ast.ExprStmt{X: call(rt("Go"), fl)}}
		}
		// evaluate the arguments now, run the call on the new thread
		var pre []ast.Stmt
		var args []ast.Expr
		for _, a := range t.Call.Args {
			r.tmp++
			id := ast.NewIdent(fmt.Sprintf("_vg%d", r.tmp))
			pre = append(pre, &ast.AssignStmt{Lhs: []ast.Expr{id}, Tok: token.DEFINE, Rhs: []ast.Expr{r.expr(a)}})
			args = append(args, id)
		}
		if fl, ok := t.Call.Fun.(*ast.FuncLit); ok {
			r.block(fl.Body, points)
		}
		inner := &ast.FuncLit{Type: &ast.FuncType{Params: &ast.FieldList{}}, Body: &ast.BlockStmt{List: []ast.Stmt{&ast.ExprStmt{X: &ast.CallExpr{Fun: t.Call.Fun, Args: args, Ellipsis: t.Call.Ellipsis}}}}}
		pre = append(pre, &ast.ExprStmt{X: call(rt("Go"), inner)})
		return []ast.Stmt{&ast.BlockStmt{List: pre}}
	case *ast.SendStmt:
		if !r.sp.chans {
			r.errorf(t.Pos(), "channel send in a file not marked for channel rewriting")
			return []ast.Stmt{s}
		}
		return []ast.Stmt{&ast.ExprStmt{X: call(sel(r.expr(t.Chan), "Send"), r.expr(t.Value))}}
	case *ast.SelectStmt:
		if !r.sp.chans {
			// server.go: non-blocking polls of ctx.Done() stay as they are; anything else is unsupported
			for _, c := range t.Body.List {
				cc := c.(*ast.CommClause)
				if cc.Comm != nil && !isDoneRecv(commRecv(cc.Comm)) {
					r.errorf(cc.Pos(), "select arm on something other than X.Done() in a file not marked for channel rewriting")
				}
				cc.Body = r.stmts(cc.Body, points)
			}
			hasDefault := false
			for _, c := range t.Body.List {
				if c.(*ast.CommClause).Comm == nil {
					hasDefault = true
				}
			}
			if !hasDefault {
				r.errorf(t.Pos(), "blocking select on real channels is not supported")
			}
			return []ast.Stmt{s}
		}
		return []ast.Stmt{r.selectStmt(t, points)}
	case *ast.BlockStmt:
		r.block(t, points)
	case *ast.IfStmt:
		if t.Init != nil {
			t.Init = r.single(t.Init)
		}
		t.Cond = r.expr(t.Cond)
		r.block(t.Body, points)
		if t.Else != nil {
			switch e := t.Else.(type) {
			case *ast.BlockStmt:
				r.block(e, points)
			case *ast.IfStmt:
				r.stmt(e, points)
			}
		}
	case *ast.ForStmt:
		if t.Init != nil {
			t.Init = r.single(t.Init)
		}
		if t.Cond != nil {
			t.Cond = r.expr(t.Cond)
		}
		r.block(t.Body, points)
	case *ast.RangeStmt:
		if r.sp.chans && r.chanExpr(t.X) {
			// for v := range ch { body }  ->  for { v, ok := ch.Recv2(); if !ok { break }; body }
			r.block(t.Body, points)
			r.tmp++
			okID := ast.NewIdent(fmt.Sprintf("_vok%d", r.tmp))
			var key ast.Expr = ast.NewIdent("_")
			if t.Key != nil {
				key = t.Key
			}
			if t.Value != nil {
				r.errorf(t.Pos(), "range over a channel with two variables")
			}
			recv := &ast.AssignStmt{Lhs: []ast.Expr{key, okID}, Tok: token.DEFINE, Rhs: []ast.Expr{call(sel(r.expr(t.X), "Recv2"))}}
			if id, ok := key.(*ast.Ident); ok && id.Name == "_" {
				recv.Lhs[0] = ast.NewIdent("_")
			}
			brk := &ast.IfStmt{Cond: &ast.UnaryExpr{Op: token.NOT, X: okID}, Body: &ast.BlockStmt{List: []ast.Stmt{&ast.BranchStmt{Tok: token.BREAK}}}}
			body := append([]ast.Stmt{recv, brk}, t.Body.List...)
			return []ast.Stmt{&ast.ForStmt{Body: &ast.BlockStmt{List: body}}}
		}
		t.X = r.expr(t.X)
		r.block(t.Body, points)
	case *ast.SwitchStmt:
		if t.Init != nil {
			t.Init = r.single(t.Init)
		}
		if t.Tag != nil {
			t.Tag = r.expr(t.Tag)
		}
		for _, c := range t.Body.List {
			cc := c.(*ast.CaseClause)
			cc.Body = r.stmts(cc.Body, points)
		}
	case *ast.TypeSwitchStmt:
		for _, c := range t.Body.List {
			cc := c.(*ast.CaseClause)
			cc.Body = r.stmts(cc.Body, points)
		}
	case *ast.LabeledStmt:
		ns := r.stmt(t.Stmt, points)
		if len(ns) == 1 {
			t.Stmt = ns[0]
		}
	case *ast.ExprStmt:
		t.X = r.expr(t.X)
	case *ast.AssignStmt:
		// v, ok := <-c
		if len(t.Lhs) == 2 && len(t.Rhs) == 1 {
			if u, ok := t.Rhs[0].(*ast.UnaryExpr); ok && u.Op == token.ARROW && r.sp.chans && !isDoneRecv(u) {
				t.Rhs[0] = call(sel(r.expr(u.X), "Recv2"))
				return []ast.Stmt{t}
			}
		}
		for i := range t.Rhs {
			t.Rhs[i] = r.expr(t.Rhs[i])
		}
		for i := range t.Lhs {
			t.Lhs[i] = r.expr(t.Lhs[i])
		}
	case *ast.ReturnStmt:
		for i := range t.Results {
			t.Results[i] = r.expr(t.Results[i])
		}
	case *ast.DeferStmt:
		t.Call = r.expr(t.Call).(*ast.CallExpr)
	case *ast.DeclStmt:
		if r.sp.chans {
			ast.Inspect(t, func(n ast.Node) bool { r.chanTypesIn(n); return true })
		}
		if gd, ok := t.Decl.(*ast.GenDecl); ok {
			for _, sp := range gd.Specs {
				if vs, ok := sp.(*ast.ValueSpec); ok {
					for i := range vs.Values {
						vs.Values[i] = r.expr(vs.Values[i])
					}
				}
			}
		}
	case *ast.IncDecStmt, *ast.BranchStmt, *ast.EmptyStmt:
	default:
		r.errorf(s.Pos(), "unsupported statement %T", s)
	}
	return []ast.Stmt{s}
}

func (r *rewriter) single(s ast.Stmt) ast.Stmt {
	ns := r.stmt(s, false)
	if len(ns) != 1 {
		r.errorf(s.Pos(), "statement expands to several statements in a header position")
		return s
	}
	return ns[0]
}

// exprsIn rewrites expressions nested in a function literal's signature (channel types).
func (r *rewriter) exprsIn(fl *ast.FuncLit) {
	if r.sp.chans {
		r.chanTypesInFieldList(fl.Type.Params)
		r.chanTypesInFieldList(fl.Type.Results)
	}
}

// timerFuncs are the functions of package time that start a timer or wait for one.
var timerFuncs = map[string]string{"NewTicker": "NewTicker", "NewTimer": "NewTimer", "After": "After", "AfterFunc": "AfterFunc", "Tick": "Tick", "Sleep": "Sleep"}

// usesTimers reports whether the file starts timers or sleeps.
func usesTimers(f *ast.File) bool {
	found := false
	ast.Inspect(f, func(n ast.Node) bool {
		if s, ok := n.(*ast.SelectorExpr); ok {
			if x, ok := s.X.(*ast.Ident); ok && x.Name == "time" && timerFuncs[s.Sel.Name] != "" {
				found = true
			}
		}
		return !found
	})
	return found
}

// timeType maps time.Ticker / time.Timer to the shim types.
func timeType(e ast.Expr) (ast.Expr, bool) {
	if s, ok := e.(*ast.SelectorExpr); ok {
		if x, ok := s.X.(*ast.Ident); ok && x.Name == "time" && (s.Sel.Name == "Ticker" || s.Sel.Name == "Timer") {
			return rt(s.Sel.Name), true
		}
	}
	return e, false
}

// usesChans reports whether the file declares a channel type or makes a channel.
func usesChans(f *ast.File) bool {
	found := false
	ast.Inspect(f, func(n ast.Node) bool {
		if _, ok := n.(*ast.ChanType); ok {
			found = true
		}
		return !found
	})
	return found
}

func isMakeChan(e ast.Expr) bool {
	c, ok := e.(*ast.CallExpr)
	if !ok || len(c.Args) == 0 {
		return false
	}
	id, ok := c.Fun.(*ast.Ident)
	if !ok || id.Name != "make" {
		return false
	}
	_, ok = c.Args[0].(*ast.ChanType)
	return ok
}

// chanExpr reports whether e names something declared as a channel in this file.
func (r *rewriter) chanExpr(e ast.Expr) bool {
	switch t := e.(type) {
	case *ast.Ident:
		return r.chanNames[t.Name]
	case *ast.SelectorExpr:
		return r.chanNames[t.Sel.Name] || r.sp.timers && t.Sel.Name == "C"
	case *ast.CallExpr:
		// range time.Tick(d)
		if s, ok := t.Fun.(*ast.SelectorExpr); ok && r.sp.timers {
			if x, ok := s.X.(*ast.Ident); ok && (x.Name == "time" || x.Name == "vsyncrt") && (s.Sel.Name == "Tick" || s.Sel.Name == "After") {
				return true
			}
		}
	}
	return false
}

func isDoneRecv(u *ast.UnaryExpr) bool {
	if u == nil {
		return false
	}
	c, ok := u.X.(*ast.CallExpr)
	if !ok {
		return false
	}
	s, ok := c.Fun.(*ast.SelectorExpr)
	return ok && s.Sel.Name == "Done" && len(c.Args) == 0
}

func commRecv(s ast.Stmt) *ast.UnaryExpr {
	switch t := s.(type) {
	case *ast.ExprStmt:
		if u, ok := t.X.(*ast.UnaryExpr); ok && u.Op == token.ARROW {
			return u
		}
	case *ast.AssignStmt:
		if len(t.Rhs) == 1 {
			if u, ok := t.Rhs[0].(*ast.UnaryExpr); ok && u.Op == token.ARROW {
				return u
			}
		}
	}
	return nil
}

// expr rewrites an expression tree (receives, make(chan), close, time.Now, function literals).
func (r *rewriter) expr(e ast.Expr) ast.Expr {
	switch t := e.(type) {
	case nil:
		return nil
	case *ast.UnaryExpr:
		if t.Op == token.ARROW {
			if isDoneRecv(t) || !r.sp.chans {
				if !isDoneRecv(t) {
					r.errorf(t.Pos(), "channel receive in a file not marked for channel rewriting")
				}
				return t
			}
			return call(sel(r.expr(t.X), "Recv"))
		}
		t.X = r.expr(t.X)
	case *ast.CallExpr:
		if id, ok := t.Fun.(*ast.Ident); ok && r.sp.chans {
			if id.Name == "make" && len(t.Args) >= 1 {
				if ct, ok := t.Args[0].(*ast.ChanType); ok {
					r.needRT = true
					args := []ast.Expr{}
					for _, a := range t.Args[1:] {
						args = append(args, r.expr(a))
					}
					return call(&ast.IndexExpr{X: rt("MakeChan"), Index: r.chanType(ct.Value)}, args...)
				}
			}
			if id.Name == "close" && len(t.Args) == 1 {
				return call(sel(r.expr(t.Args[0]), "Close"))
			}
		}
		if s, ok := t.Fun.(*ast.SelectorExpr); ok && r.sp.now {
			if x, ok := s.X.(*ast.Ident); ok && x.Name == "time" && s.Sel.Name == "Now" {
				r.needRT = true
				return call(rt("Now"))
			}
		}
		if s, ok := t.Fun.(*ast.SelectorExpr); ok && r.sp.timers {
			if x, ok := s.X.(*ast.Ident); ok && x.Name == "time" {
				name := timerFuncs[s.Sel.Name]
				if s.Sel.Name == "Since" || s.Sel.Name == "Until" {
					name = s.Sel.Name
				}
				if name != "" {
					r.needRT = true
					for i := range t.Args {
						t.Args[i] = r.expr(t.Args[i])
					}
					t.Fun = rt(name)
					return t
				}
			}
		}
		t.Fun = r.expr(t.Fun)
		for i := range t.Args {
			t.Args[i] = r.expr(t.Args[i])
		}
	case *ast.FuncLit:
		r.exprsIn(t)
		r.block(t.Body, false)
	case *ast.CompositeLit:
		if r.sp.chans && t.Type != nil {
			t.Type = r.chanType(t.Type)
		}
		for i := range t.Elts {
			t.Elts[i] = r.expr(t.Elts[i])
		}
	case *ast.KeyValueExpr:
		t.Value = r.expr(t.Value)
	case *ast.BinaryExpr:
		t.X, t.Y = r.expr(t.X), r.expr(t.Y)
	case *ast.ParenExpr:
		t.X = r.expr(t.X)
	case *ast.SelectorExpr:
		t.X = r.expr(t.X)
	case *ast.StarExpr:
		t.X = r.expr(t.X)
	case *ast.IndexExpr:
		t.X, t.Index = r.expr(t.X), r.expr(t.Index)
	case *ast.SliceExpr:
		t.X = r.expr(t.X)
	case *ast.TypeAssertExpr:
		t.X = r.expr(t.X)
	case *ast.ChanType:
		if r.sp.chans {
			return r.chanType(t)
		}
	}
	return e
}

// selectStmt turns a select over shim channels (and X.Done()) into vsyncrt.Select + switch.
func (r *rewriter) selectStmt(s *ast.SelectStmt, points bool) ast.Stmt {
	r.needRT = true
	var pre []ast.Stmt
	var cases []ast.Expr
	sw := &ast.SwitchStmt{Body: &ast.BlockStmt{}}
	hasDefault := false
	idx := 0
	for _, c := range s.Body.List {
		cc := c.(*ast.CommClause)
		body := r.stmts(cc.Body, points)
		if cc.Comm == nil {
			hasDefault = true
			sw.Body.List = append(sw.Body.List, &ast.CaseClause{List: []ast.Expr{&ast.UnaryExpr{Op: token.SUB, X: &ast.BasicLit{Kind: token.INT, Value: "1"}}}, Body: body})
			continue
		}
		if snd, ok := cc.Comm.(*ast.SendStmt); ok {
			// case ch <- v: channel and value are evaluated on entry, in source order, like Go does
			label := &ast.BasicLit{Kind: token.INT, Value: strconv.Itoa(idx)}
			idx++
			r.tmp++
			ch := ast.NewIdent(fmt.Sprintf("_vs%d", r.tmp))
			r.tmp++
			val := ast.NewIdent(fmt.Sprintf("_vs%d", r.tmp))
			pre = append(pre, &ast.AssignStmt{Lhs: []ast.Expr{ch}, Tok: token.DEFINE, Rhs: []ast.Expr{r.expr(snd.Chan)}},
				&ast.AssignStmt{Lhs: []ast.Expr{val}, Tok: token.DEFINE, Rhs: []ast.Expr{r.expr(snd.Value)}})
			cases = append(cases, call(sel(ch, "SendCase"), val))
			sw.Body.List = append(sw.Body.List, &ast.CaseClause{List: []ast.Expr{label}, Body: body})
			continue
		}
		u := commRecv(cc.Comm)
		if u == nil {
			r.errorf(cc.Pos(), "select arm that is neither a send nor a receive")
			continue
		}
		label := &ast.BasicLit{Kind: token.INT, Value: strconv.Itoa(idx)}
		idx++
		if isDoneRecv(u) {
			cases = append(cases, call(rt("DoneCase"), u.X))
			sw.Body.List = append(sw.Body.List, &ast.CaseClause{List: []ast.Expr{label}, Body: body})
			continue
		}
		r.tmp++
		id := ast.NewIdent(fmt.Sprintf("_vs%d", r.tmp))
		pre = append(pre, &ast.AssignStmt{Lhs: []ast.Expr{id}, Tok: token.DEFINE, Rhs: []ast.Expr{r.expr(u.X)}})
		cases = append(cases, call(sel(id, "RecvCase")))
		if as, ok := cc.Comm.(*ast.AssignStmt); ok {
			var fetch ast.Stmt
			if len(as.Lhs) == 2 {
				fetch = &ast.AssignStmt{Lhs: as.Lhs, Tok: as.Tok, Rhs: []ast.Expr{call(sel(id, "Taken2"))}}
			} else {
				fetch = &ast.AssignStmt{Lhs: as.Lhs, Tok: as.Tok, Rhs: []ast.Expr{call(sel(id, "Taken"))}}
			}
			body = append([]ast.Stmt{fetch}, body...)
		}
		sw.Body.List = append(sw.Body.List, &ast.CaseClause{List: []ast.Expr{label}, Body: body})
	}
	def := "false"
	if hasDefault {
		def = "true"
	}
	// a select whose arms all return is a terminating statement; a switch is one only with a default arm
	sw.Body.List = append(sw.Body.List, &ast.CaseClause{List: nil, Body: []ast.Stmt{&ast.ExprStmt{X: call(ast.NewIdent("panic"), &ast.BasicLit{Kind: token.STRING, Value: strconv.Quote("vsyncrt: select fired an arm it does not have")})}}})
	sw.Tag = call(rt("Select"), append([]ast.Expr{ast.NewIdent(def)}, cases...)...)
	return &ast.BlockStmt{List: append(pre, sw)}
}
