// Placeholder: ./run generates the real go.mod in a scratch directory (replace => scratch copy of /repo).
module verif/mc

go 1.23
