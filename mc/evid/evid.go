// Package evid holds what every check shares: counters, distinct-outcome sets, samples,
// violation reporting against the known-findings file, evidence writing, and the
// parent/worker protocol used to shard an exploration over subprocesses.
package evid

import (
	"crypto/sha256"
	"encoding/binary"
	"encoding/hex"
	"encoding/json"
	"fmt"
	"hash/fnv"
	"os"
	"path/filepath"
	"sort"
	"strings"
	"sync"
	"time"
)

// Violation is one counterexample.
type Violation struct {
	Key    string      `json:"key"`    // stable identity used by the known-findings file
	What   string      `json:"what"`   // one line for humans
	Replay interface{} `json:"replay"` // everything needed to re-execute the single case
	Size   int         `json:"size,omitempty"`
}

// Result is what one worker (or an unsharded check) produced.
type Result struct {
	Evaluations int64            `json:"evaluations"`
	Transitions int64            `json:"transitions"`
	Traces      int64            `json:"traces"`
	Counters    map[string]int64 `json:"counters"`
	Samples     []interface{}    `json:"samples"`
	Violations  []Violation      `json:"violations"`
	ViolCount   int64            `json:"viol_count"`
	Capped      bool             `json:"capped"`
	Notes       []string         `json:"notes"`

	mu       sync.Mutex
	distinct map[uint64]struct{}
	states   map[uint64]struct{}
	violKeys map[string]bool
	violSize map[string]int
}

// NewResult makes an empty result.
func NewResult() *Result {
	return &Result{Counters: map[string]int64{}, distinct: map[uint64]struct{}{}, states: map[uint64]struct{}{}, violKeys: map[string]bool{}}
}

// Hash hashes any printable parts into 64 bits.
func Hash(parts ...interface{}) uint64 {
	h := fnv.New64a()
	for _, p := range parts {
		switch v := p.(type) {
		case []byte:
			h.Write(v)
		case string:
			h.Write([]byte(v))
		default:
			fmt.Fprintf(h, "%v", v)
		}
		h.Write([]byte{0xfe})
	}
	return h.Sum64()
}

// Eval counts one evaluated case.
func (r *Result) Eval() { r.mu.Lock(); r.Evaluations++; r.mu.Unlock() }

// EvalN counts n evaluated cases.
func (r *Result) EvalN(n int64) { r.mu.Lock(); r.Evaluations += n; r.mu.Unlock() }

// Trans counts executed transitions on the implementation.
func (r *Result) Trans(n int64) { r.mu.Lock(); r.Transitions += n; r.mu.Unlock() }

// Trace counts one complete history on which model and implementation agreed.
func (r *Result) Trace() { r.mu.Lock(); r.Traces++; r.mu.Unlock() }

// Distinct records a non-trivial distinct case/outcome.
func (r *Result) Distinct(h uint64) { r.mu.Lock(); r.distinct[h] = struct{}{}; r.mu.Unlock() }

// State records a distinct model state.
func (r *Result) State(h uint64) { r.mu.Lock(); r.states[h] = struct{}{}; r.mu.Unlock() }

// Count bumps a named counter.
func (r *Result) Count(name string, n int64) { r.mu.Lock(); r.Counters[name] += n; r.mu.Unlock() }

// Sample keeps up to 6 samples per run.
func (r *Result) Sample(s interface{}) {
	r.mu.Lock()
	if len(r.Samples) < 6 {
		r.Samples = append(r.Samples, s)
	}
	r.mu.Unlock()
}

// SampleCap keeps a sample only while fewer than max samples are held.
func (r *Result) SampleCap(max int, s interface{}) {
	r.mu.Lock()
	if len(r.Samples) < max {
		r.Samples = append(r.Samples, s)
	}
	r.mu.Unlock()
}

// Note adds a free-text note to the evidence.
func (r *Result) Note(s string) { r.mu.Lock(); r.Notes = append(r.Notes, s); r.mu.Unlock() }

// Violate records a violation (first occurrence per key keeps its replay).
func (r *Result) Violate(key, what string, replay interface{}) {
	r.mu.Lock()
	defer r.mu.Unlock()
	r.ViolCount++
	if r.violKeys[key] {
		return
	}
	r.violKeys[key] = true
	if len(r.Violations) < 200 {
		r.Violations = append(r.Violations, Violation{Key: key, What: what, Replay: replay})
	}
}

// ViolateMin is Violate that keeps, per key, the counterexample with the smallest size.
func (r *Result) ViolateMin(key, what string, replay interface{}, size int) {
	r.mu.Lock()
	defer r.mu.Unlock()
	r.ViolCount++
	if r.violSize == nil {
		r.violSize = map[string]int{}
	}
	if r.violKeys[key] {
		if size >= r.violSize[key] {
			return
		}
		for i := range r.Violations {
			if r.Violations[i].Key == key {
				r.Violations[i] = Violation{Key: key, What: what, Replay: replay, Size: size}
				r.violSize[key] = size
			}
		}
		return
	}
	r.violKeys[key] = true
	r.violSize[key] = size
	if len(r.Violations) < 200 {
		r.Violations = append(r.Violations, Violation{Key: key, What: what, Replay: replay, Size: size})
	}
}

// NDistinct returns the number of distinct outcomes.
func (r *Result) NDistinct() int { r.mu.Lock(); defer r.mu.Unlock(); return len(r.distinct) }

// Merge folds another result into r.
func (r *Result) Merge(o *Result) {
	r.mu.Lock()
	defer r.mu.Unlock()
	r.Evaluations += o.Evaluations
	r.Transitions += o.Transitions
	r.Traces += o.Traces
	for k, v := range o.Counters {
		r.Counters[k] += v
	}
	for _, s := range o.Samples {
		if len(r.Samples) < 8 {
			r.Samples = append(r.Samples, s)
		}
	}
	for _, v := range o.Violations {
		if !r.violKeys[v.Key] {
			r.violKeys[v.Key] = true
			r.Violations = append(r.Violations, v)
			continue
		}
		for i := range r.Violations {
			if r.Violations[i].Key == v.Key && v.Size > 0 && v.Size < r.Violations[i].Size {
				r.Violations[i] = v
			}
		}
	}
	r.ViolCount += o.ViolCount
	r.Capped = r.Capped || o.Capped
	r.Notes = append(r.Notes, o.Notes...)
	for h := range o.distinct {
		r.distinct[h] = struct{}{}
	}
	for h := range o.states {
		r.states[h] = struct{}{}
	}
}

// Save writes the result (JSON + binary hash sets) for the parent process.
func (r *Result) Save(base string) error {
	b, err := json.Marshal(r)
	if err != nil {
		return err
	}
	if err := os.WriteFile(base+".hashes", packSet(r.distinct), 0o644); err != nil {
		return err
	}
	if err := os.WriteFile(base+".states", packSet(r.states), 0o644); err != nil {
		return err
	}
	return os.WriteFile(base+".json", b, 0o644)
}

// Load reads a result saved by a worker.
func Load(base string) (*Result, error) {
	b, err := os.ReadFile(base + ".json")
	if err != nil {
		return nil, err
	}
	r := NewResult()
	if err := json.Unmarshal(b, r); err != nil {
		return nil, err
	}
	if r.Counters == nil {
		r.Counters = map[string]int64{}
	}
	for _, v := range r.Violations {
		r.violKeys[v.Key] = true
	}
	unpackSet(base+".hashes", r.distinct)
	unpackSet(base+".states", r.states)
	return r, nil
}

func packSet(m map[uint64]struct{}) []byte {
	out := make([]byte, 0, 8*len(m))
	var b [8]byte
	for h := range m {
		binary.LittleEndian.PutUint64(b[:], h)
		out = append(out, b[:]...)
	}
	return out
}

func unpackSet(path string, m map[uint64]struct{}) {
	b, err := os.ReadFile(path)
	if err != nil {
		return
	}
	for i := 0; i+8 <= len(b); i += 8 {
		m[binary.LittleEndian.Uint64(b[i:])] = struct{}{}
	}
}

// Finding is an entry of known_findings.json.
type Finding struct {
	Property string `json:"property"`
	Key      string `json:"key"`
	Status   string `json:"status"` // "known" or "fixed"
	Commit   string `json:"commit,omitempty"`
	What     string `json:"what"`
}

// LoadKnown loads known findings (status "known" only suppress).
func LoadKnown(dir, prop string) map[string]Finding {
	out := map[string]Finding{}
	b, err := os.ReadFile(filepath.Join(dir, "known_findings.json"))
	if err != nil {
		return out
	}
	var fs []Finding
	if json.Unmarshal(b, &fs) != nil {
		return out
	}
	for _, f := range fs {
		if f.Property == prop && f.Status == "known" {
			out[f.Key] = f
		}
	}
	return out
}

// Spec describes how a check's evidence is labelled.
type Spec struct {
	ID          string
	Level       string // exploration | model_checking
	Rule        string
	Assumptions []string
	Extra       map[string]interface{}
	Exhaustive  bool
}

// Finish prints the verdict lines, writes replays and the evidence file, and returns the exit code.
func Finish(verifDir string, spec Spec, tier string, seed int, r *Result, start time.Time) int {
	known := LoadKnown(verifDir, spec.ID)
	sort.Slice(r.Violations, func(i, j int) bool { return r.Violations[i].Key < r.Violations[j].Key })
	exit := 0
	unknown := 0
	for _, v := range r.Violations {
		if f, ok := known[v.Key]; ok {
			fmt.Printf("KNOWN-FINDING: property=%s %s (%s)\n", spec.ID, v.Key, f.What)
			continue
		}
		unknown++
		path := writeReplay(verifDir, spec.ID, v)
		if unknown <= 25 {
			fmt.Printf("VIOLATION property=%s replay=%s\n", spec.ID, path)
			fmt.Printf("  key=%s\n  %s\n", v.Key, oneLine(v.What))
		}
		exit = 1
	}
	cov := map[string]interface{}{
		"evaluations":         r.Evaluations,
		"distinct_nontrivial": len(r.distinct),
		"rule":                spec.Rule,
		"samples":             r.Samples,
		"exhaustive":          spec.Exhaustive && !r.Capped,
		"counters":            r.Counters,
	}
	if spec.Level == "model_checking" {
		cov["states"] = len(r.states)
		cov["transitions"] = r.Transitions
		cov["traces_validated_against_impl"] = r.Traces
	}
	if len(r.Notes) > 0 {
		cov["notes"] = dedup(r.Notes)
	}
	if r.Capped {
		cov["capped"] = true
	}
	for k, v := range spec.Extra {
		cov[k] = v
	}
	if len(r.Samples) == 0 {
		cov["samples"] = []interface{}{"(no sample recorded)"}
	}
	if spec.Assumptions == nil {
		spec.Assumptions = []string{}
	}
	ev := map[string]interface{}{
		"property_id": spec.ID,
		"tier":        tier,
		"seed":        seed,
		"level":       spec.Level,
		"coverage":    cov,
		"assumptions": spec.Assumptions,
		"wall_s":      time.Since(start).Seconds(),
		"violations":  unknown,
		"known_findings_hit": func() []string {
			var ks []string
			for _, v := range r.Violations {
				if _, ok := known[v.Key]; ok {
					ks = append(ks, v.Key)
				}
			}
			return ks
		}(),
	}
	b, _ := json.MarshalIndent(ev, "", " ")
	os.MkdirAll(filepath.Join(verifDir, "evidence"), 0o755)
	if err := os.WriteFile(filepath.Join(verifDir, "evidence", spec.ID+".json"), b, 0o644); err != nil {
		fmt.Fprintf(os.Stderr, "cannot write evidence: %v\n", err)
		return 2
	}
	fmt.Printf("%s %s: evaluations=%d distinct=%d states=%d transitions=%d traces=%d violations=%d known=%d wall=%.1fs\n",
		spec.ID, tier, r.Evaluations, len(r.distinct), len(r.states), r.Transitions, r.Traces, unknown, len(r.Violations)-unknown, time.Since(start).Seconds())
	return exit
}

func dedup(in []string) []string {
	seen := map[string]bool{}
	var out []string
	for _, s := range in {
		if !seen[s] {
			seen[s] = true
			out = append(out, s)
		}
	}
	return out
}

func oneLine(s string) string {
	s = strings.ReplaceAll(s, "\n", " | ")
	if len(s) > 600 {
		s = s[:600] + "…"
	}
	return s
}

func writeReplay(verifDir, id string, v Violation) string {
	dir := filepath.Join(verifDir, "replays", id)
	os.MkdirAll(dir, 0o755)
	sum := sha256.Sum256([]byte(v.Key))
	path := filepath.Join(dir, hex.EncodeToString(sum[:6])+".json")
	b, _ := json.MarshalIndent(map[string]interface{}{"property": id, "key": v.Key, "what": v.What, "replay": v.Replay}, "", " ")
	os.WriteFile(path, b, 0o644)
	return path
}
