// Package ref holds the reference models. Nothing here imports the repository's codecs:
// the layouts are restated from RFC 8907 as tables and run by a small interpreter.
package ref

import (
	"fmt"
)

// Kind of a layout item.
type Kind int

const (
	U8     Kind = iota // one octet holding field's numeric value
	Len8               // one octet holding len(field)
	Len16              // two octets, big endian, holding len(field)
	Cnt8               // one octet holding the number of arguments
	ArgLen             // one octet per argument holding its length
	Bytes              // the field's bytes
	ArgVal             // all argument values, in order
)

// Item is one element of a layout.
type Item struct {
	K Kind
	F string
}

// Layout is an RFC 8907 body layout.
type Layout struct {
	Name  string
	Items []Item
	Fixed int // size of the fixed part (everything before the first variable-length item, excluding arg lens)
}

// Msg is a body as field values: numeric fields, byte-string fields, argument list.
type Msg struct {
	N    map[string]int
	S    map[string][]byte
	Args [][]byte
}

// NewMsg makes an empty message.
func NewMsg() *Msg { return &Msg{N: map[string]int{}, S: map[string][]byte{}} }

// RFC 8907 section 5.1
var AuthenStart = Layout{Name: "AuthenStart", Fixed: 8, Items: []Item{
	{U8, "action"}, {U8, "priv_lvl"}, {U8, "authen_type"}, {U8, "authen_service"},
	{Len8, "user"}, {Len8, "port"}, {Len8, "rem_addr"}, {Len8, "data"},
	{Bytes, "user"}, {Bytes, "port"}, {Bytes, "rem_addr"}, {Bytes, "data"}}}

// RFC 8907 section 5.2
var AuthenReply = Layout{Name: "AuthenReply", Fixed: 6, Items: []Item{
	{U8, "status"}, {U8, "flags"}, {Len16, "server_msg"}, {Len16, "data"},
	{Bytes, "server_msg"}, {Bytes, "data"}}}

// RFC 8907 section 5.3
var AuthenContinue = Layout{Name: "AuthenContinue", Fixed: 5, Items: []Item{
	{Len16, "user_msg"}, {Len16, "data"}, {U8, "flags"},
	{Bytes, "user_msg"}, {Bytes, "data"}}}

// RFC 8907 section 6.1
var AuthorRequest = Layout{Name: "AuthorRequest", Fixed: 8, Items: []Item{
	{U8, "authen_method"}, {U8, "priv_lvl"}, {U8, "authen_type"}, {U8, "authen_service"},
	{Len8, "user"}, {Len8, "port"}, {Len8, "rem_addr"}, {Cnt8, ""}, {ArgLen, ""},
	{Bytes, "user"}, {Bytes, "port"}, {Bytes, "rem_addr"}, {ArgVal, ""}}}

// RFC 8907 section 6.2
var AuthorReply = Layout{Name: "AuthorReply", Fixed: 6, Items: []Item{
	{U8, "status"}, {Cnt8, ""}, {Len16, "server_msg"}, {Len16, "data"}, {ArgLen, ""},
	{Bytes, "server_msg"}, {Bytes, "data"}, {ArgVal, ""}}}

// RFC 8907 section 7.1
var AcctRequest = Layout{Name: "AcctRequest", Fixed: 9, Items: []Item{
	{U8, "flags"}, {U8, "authen_method"}, {U8, "priv_lvl"}, {U8, "authen_type"}, {U8, "authen_service"},
	{Len8, "user"}, {Len8, "port"}, {Len8, "rem_addr"}, {Cnt8, ""}, {ArgLen, ""},
	{Bytes, "user"}, {Bytes, "port"}, {Bytes, "rem_addr"}, {ArgVal, ""}}}

// RFC 8907 section 7.2
var AcctReply = Layout{Name: "AcctReply", Fixed: 5, Items: []Item{
	{Len16, "server_msg"}, {Len16, "data"}, {U8, "status"},
	{Bytes, "server_msg"}, {Bytes, "data"}}}

// Layouts by header type (1 authentication, 2 authorization, 3 accounting).
var LayoutsByType = map[int][]Layout{
	1: {AuthenStart, AuthenContinue, AuthenReply},
	2: {AuthorRequest, AuthorReply},
	3: {AcctRequest, AcctReply},
}

// Encode lays a message out. ok is false when a value does not fit its wire width.
func (l Layout) Encode(m *Msg) (out []byte, ok bool) {
	ok = true
	for _, it := range l.Items {
		switch it.K {
		case U8:
			v := m.N[it.F]
			if v < 0 || v > 255 {
				ok = false
			}
			out = append(out, byte(v))
		case Len8:
			n := len(m.S[it.F])
			if n > 255 {
				ok = false
			}
			out = append(out, byte(n))
		case Len16:
			n := len(m.S[it.F])
			if n > 65535 {
				ok = false
			}
			out = append(out, byte(n>>8), byte(n))
		case Cnt8:
			if len(m.Args) > 255 {
				ok = false
			}
			out = append(out, byte(len(m.Args)))
		case ArgLen:
			for _, a := range m.Args {
				if len(a) > 255 {
					ok = false
				}
				out = append(out, byte(len(a)))
			}
		case Bytes:
			out = append(out, m.S[it.F]...)
		case ArgVal:
			for _, a := range m.Args {
				out = append(out, a...)
			}
		}
	}
	return out, ok
}

// Class of a byte string with respect to a layout.
type Class int

const (
	Exact         Class = iota // fixed part fits and announced lengths consume exactly all bytes
	Short                      // fewer bytes than the fixed part, or the argument-length table runs off the end
	Inconsistent               // fixed part (and length table) fit, announced variable lengths exceed what follows
	TrailingBytes              // everything announced fits and bytes are left over
)

func (c Class) String() string {
	return [...]string{"exact", "short", "inconsistent", "trailing"}[c]
}

// Decode reads b per the layout. For Exact (and TrailingBytes) the message is complete.
func (l Layout) Decode(b []byte) (*Msg, Class) {
	m := NewMsg()
	if len(b) < l.Fixed {
		return nil, Short
	}
	pos := 0
	lens := map[string]int{}
	argc := 0
	var arglens []int
	for _, it := range l.Items {
		switch it.K {
		case U8:
			m.N[it.F] = int(b[pos])
			pos++
		case Len8:
			lens[it.F] = int(b[pos])
			pos++
		case Len16:
			lens[it.F] = int(b[pos])<<8 | int(b[pos+1])
			pos += 2
		case Cnt8:
			argc = int(b[pos])
			pos++
		case ArgLen:
			if pos+argc > len(b) {
				return nil, Short
			}
			for i := 0; i < argc; i++ {
				arglens = append(arglens, int(b[pos+i]))
			}
			pos += argc
		case Bytes:
			n := lens[it.F]
			if pos+n > len(b) {
				return nil, Inconsistent
			}
			m.S[it.F] = b[pos : pos+n]
			pos += n
		case ArgVal:
			for _, n := range arglens {
				if pos+n > len(b) {
					return nil, Inconsistent
				}
				m.Args = append(m.Args, b[pos:pos+n])
				pos += n
			}
		}
	}
	if pos < len(b) {
		return m, TrailingBytes
	}
	return m, Exact
}

// String renders a message compactly for samples and replays.
func (m *Msg) String() string {
	s := fmt.Sprintf("%v", m.N)
	for k, v := range m.S {
		s += fmt.Sprintf(" %s[%d]", k, len(v))
	}
	s += fmt.Sprintf(" args=%d", len(m.Args))
	return s
}

// Header is the 12-octet RFC 8907 header, field by field.
type Header struct {
	Version byte
	Type    byte
	Seq     byte
	Flags   byte
	Session uint32
	Length  uint32
}

// Encode lays the header out per RFC 8907 section 4.1.
func (h Header) Encode() []byte {
	return []byte{h.Version, h.Type, h.Seq, h.Flags,
		byte(h.Session >> 24), byte(h.Session >> 16), byte(h.Session >> 8), byte(h.Session),
		byte(h.Length >> 24), byte(h.Length >> 16), byte(h.Length >> 8), byte(h.Length)}
}

// DecodeHeader parses 12 octets.
func DecodeHeader(b []byte) Header {
	return Header{Version: b[0], Type: b[1], Seq: b[2], Flags: b[3],
		Session: uint32(b[4])<<24 | uint32(b[5])<<16 | uint32(b[6])<<8 | uint32(b[7]),
		Length:  uint32(b[8])<<24 | uint32(b[9])<<16 | uint32(b[10])<<8 | uint32(b[11])}
}

// HeaderValid is RFC validity as far as the properties rely on it: major version 0xc, minor 0/1,
// type 1..3, sequence 1..255, length <= 65536.
func (h Header) Valid() bool {
	return h.Version>>4 == 0xc && h.Version&0xf <= 1 && h.Type >= 1 && h.Type <= 3 && h.Seq >= 1 && h.Length <= 65536
}
