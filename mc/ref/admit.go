package ref

import (
	"net"
)

// Reference model of admission (property C13): deny beats allow, first matching scope wins.

// Prefix is a CIDR in raw form.
type Prefix struct {
	IP   []byte // 4 or 16 bytes
	Bits int
}

// ParsePrefix parses a CIDR string; ok=false when it is not one.
func ParsePrefix(s string) (Prefix, bool) {
	_, n, err := net.ParseCIDR(s)
	if err != nil {
		return Prefix{}, false
	}
	ones, _ := n.Mask.Size()
	ip := []byte(n.IP)
	if v4 := n.IP.To4(); v4 != nil && len(n.Mask) == 4 {
		ip = []byte(v4)
	} else if v4 != nil && ones >= 96 {
		// an IPv4 prefix written in IPv4-mapped form (::ffff:a.b.c.d/96+n) IS the IPv4 prefix a.b.c.d/n
		return Prefix{IP: []byte(v4), Bits: ones - 96}, true
	}
	return Prefix{IP: ip, Bits: ones}, true
}

// norm maps an address to 4 bytes when it is IPv4 or IPv4-mapped IPv6, else 16 bytes.
func norm(ip net.IP) []byte {
	if v4 := ip.To4(); v4 != nil {
		return []byte(v4)
	}
	return []byte(ip.To16())
}

// Contains is bitwise containment within one address family.
func (p Prefix) Contains(ip net.IP) bool {
	a := norm(ip)
	if len(a) != len(p.IP) {
		return false
	}
	for i := 0; i < p.Bits; i++ {
		if (a[i/8]>>(7-uint(i%8)))&1 != (p.IP[i/8]>>(7-uint(i%8)))&1 {
			return false
		}
	}
	return true
}

func anyContains(list []string, ip net.IP) (nonEmpty, hit bool) {
	for _, s := range list {
		if p, ok := ParsePrefix(s); ok {
			nonEmpty = true
			if p.Contains(ip) {
				hit = true
			}
		}
	}
	return
}

// Scope is one secret configuration as far as admission is concerned.
type Scope struct {
	Name      string
	Key       string
	Prefixes  []string
	Effective bool // has at least one user and is otherwise loadable
}

// Admit returns the index of the scope the address is bound to, or -1 when the connection must be refused.
// tcp=false models a remote address that is not a TCP address.
func Admit(deny, allow []string, scopes []Scope, ip net.IP, tcp bool) int {
	denyNonEmpty, denied := false, false
	allowNonEmpty, allowed := false, false
	if tcp {
		denyNonEmpty, denied = anyContains(deny, ip)
		allowNonEmpty, allowed = anyContains(allow, ip)
	} else {
		denyNonEmpty, _ = anyContains(deny, net.IPv4zero)
		allowNonEmpty, _ = anyContains(allow, net.IPv4zero)
		denied = denyNonEmpty // a non-TCP address is refused by any configured filter
	}
	_ = denyNonEmpty
	if denied {
		return -1
	}
	if allowNonEmpty && !allowed {
		return -1
	}
	if !tcp {
		return -1 // no secret provider can match a non-TCP address
	}
	for i, s := range scopes {
		if !s.Effective {
			continue
		}
		if _, hit := anyContains(s.Prefixes, ip); hit {
			return i
		}
	}
	return -1
}
