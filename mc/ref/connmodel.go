package ref

// ConnModel is the reference model of one server connection, written from RFC 8907 section 4
// and the statements of properties C06-C08: which packets reach a handler, which handler
// instance, what the reply header must be, when the connection ends, what is retained.
type ConnModel struct {
	Open     bool
	Sessions map[uint32]*SessState
	NextID   int // next handler-instance id that a Next registration will receive
}

// SessState is what the model retains for an open session.
type SessState struct {
	Last int // highest sequence number received or sent in this session
	Cont int // handler instance registered by the previous reply
	// Exhausted marks a session whose last request was numbered 255 while a continuation was
	// registered: no reply could be sent. The statement allows the server either to forget the
	// session or to keep it (then every further packet of it is out of sequence); it never allows
	// dispatching a further packet to the stale continuation.
	Exhausted bool
}

// NewConnModel returns the model of a freshly accepted connection.
func NewConnModel() *ConnModel {
	return &ConnModel{Open: true, Sessions: map[uint32]*SessState{}, NextID: 1}
}

// Action is what the invoked handler will do (chosen by the explorer, same for model and implementation).
type Action struct {
	Reply   bool
	Restart bool // reply is an authentication RESTART (sequence number 1)
	Next    bool // register a continuation
}

// Verdict is the model's prediction for one delivered packet.
type Verdict struct {
	Accept bool
	// Handler is the instance that must be invoked (0 = entry handler) when Accept.
	Handler int
	// AltEntry: in the Exhausted corner the packet may instead be rejected or go to the entry handler.
	EitherRejectOrEntry bool
	// ReplySeq is the sequence number of the reply (0: no reply packet may be written).
	ReplySeq int
	// Closed: the connection must be closed after this packet.
	Closed bool
}

// Step advances the model by one well-framed packet with header h whose handler (if any) performs act.
func (m *ConnModel) Step(h Header, act Action) Verdict {
	if !m.Open {
		return Verdict{Closed: true}
	}
	reject := func() Verdict { m.Open = false; return Verdict{Closed: true} }
	if !h.Valid() || h.Seq%2 == 0 {
		return reject()
	}
	seq := int(h.Seq)
	st := m.Sessions[h.Session]
	v := Verdict{Accept: true}
	if st != nil {
		if st.Exhausted {
			// either behaviour is acceptable; the implementation decides, ResolveExhausted is told which
			v.EitherRejectOrEntry = true
			v.Handler = 0
		} else {
			if seq <= st.Last {
				return reject()
			}
			v.Handler = st.Cont
		}
	}
	m.apply(h, act, &v)
	return v
}

func (m *ConnModel) apply(h Header, act Action, v *Verdict) {
	seq := int(h.Seq)
	last := seq
	if act.Reply {
		rs := seq + 1
		if act.Restart {
			rs = 1
		}
		if rs <= 255 {
			v.ReplySeq = rs
			if rs > last {
				last = rs
			}
		}
	}
	if act.Next {
		id := m.NextID
		m.NextID++
		ex := act.Reply && v.ReplySeq == 0
		m.Sessions[h.Session] = &SessState{Last: last, Cont: id, Exhausted: ex}
	} else {
		delete(m.Sessions, h.Session)
	}
}

// ResolveRejected is called when, in the Exhausted corner, the implementation rejected the packet
// (kept the session): the model then closes as for any out-of-sequence packet. The Next id consumed
// speculatively by Step is returned.
func (m *ConnModel) ResolveRejected(h Header, act Action) {
	if act.Next {
		m.NextID--
	}
	m.Open = false
}

// Hash summarises the model state for state counting.
func (m *ConnModel) Key() string {
	if !m.Open {
		return "closed"
	}
	s := "open"
	ids := make([]uint32, 0, len(m.Sessions))
	for id := range m.Sessions {
		ids = append(ids, id)
	}
	for i := range ids {
		for j := i + 1; j < len(ids); j++ {
			if ids[j] < ids[i] {
				ids[i], ids[j] = ids[j], ids[i]
			}
		}
	}
	for _, id := range ids {
		st := m.Sessions[id]
		s += "|" + itoa(int(id)) + ":" + itoa(st.Last) + ":" + itoa(st.Cont)
		if st.Exhausted {
			s += "x"
		}
	}
	return s
}

func itoa(n int) string {
	if n == 0 {
		return "0"
	}
	neg := n < 0
	if neg {
		n = -n
	}
	var b []byte
	for n > 0 {
		b = append([]byte{byte('0' + n%10)}, b...)
		n /= 10
	}
	if neg {
		b = append([]byte{'-'}, b...)
	}
	return string(b)
}
