package ref

import "crypto/md5"

// Pad is the RFC 8907 section 4.5 pseudo-pad:
// MD5_1 = MD5{session_id, key, version, seq_no}, MD5_n = MD5{session_id, key, version, seq_no, MD5_n-1},
// concatenated and truncated to n octets.
func Pad(session uint32, key []byte, version, seq byte, n int) []byte {
	base := []byte{byte(session >> 24), byte(session >> 16), byte(session >> 8), byte(session)}
	base = append(base, key...)
	base = append(base, version, seq)
	out := make([]byte, 0, n+16)
	var prev []byte
	for len(out) < n {
		in := append(append([]byte{}, base...), prev...)
		d := md5.Sum(in)
		prev = d[:]
		out = append(out, prev...)
	}
	return out[:n]
}

// Xor returns a XOR pad (len(pad) >= len(a)).
func Xor(a, pad []byte) []byte {
	out := make([]byte, len(a))
	for i := range a {
		out[i] = a[i] ^ pad[i]
	}
	return out
}

// Obfuscate applies the pad of header h to body unless the unencrypted flag (0x01) is set.
func Obfuscate(h Header, key, body []byte) []byte {
	if h.Flags&0x01 != 0 {
		return append([]byte{}, body...)
	}
	return Xor(body, Pad(h.Session, key, h.Version, h.Seq, len(body)))
}

// Packet builds the wire bytes of a packet: header with the true length, then the obfuscated body.
func Packet(h Header, key, clear []byte) []byte {
	h.Length = uint32(len(clear))
	return append(h.Encode(), Obfuscate(h, key, clear)...)
}
