package ref

import (
	"regexp"
	"strings"
)

// Reference evaluator of the authorization policy as property C11 states it.

// Rule is one command rule. Action: 1 deny, 2 permit.
type Rule struct {
	Name   string
	Action int
	Match  []string
}

// CmdVerdict is the reference outcome of a command authorization.
type CmdVerdict struct {
	Permit bool
	// AltPermit is the outcome when an invalid pattern is skipped instead of denying; the statement
	// leaves that case open, so when ReachedInvalid both are acceptable.
	AltPermit      bool
	ReachedInvalid bool
}

func evalCmd(rules []Rule, cmd, argstr string, skipInvalid bool) (permit, reachedInvalid bool) {
	for _, r := range rules {
		name := strings.TrimSpace(r.Name)
		if name == "*" {
			return r.Action == 2, reachedInvalid
		}
		if name != cmd {
			continue
		}
		if len(r.Match) == 0 {
			return r.Action == 2, reachedInvalid
		}
		for _, p := range r.Match {
			p = strings.TrimSpace(p)
			re, err := regexp.Compile("^(?:" + p + ")$")
			if err != nil {
				reachedInvalid = true
				if skipInvalid {
					continue
				}
				return false, true
			}
			if re.MatchString(argstr) {
				return r.Action == 2, reachedInvalid
			}
		}
	}
	return false, reachedInvalid
}

// EvalCommand: the first rule that applies decides; a rule applies if it is the wildcard, or its name
// equals the command and (it has no patterns or one pattern matches the ENTIRE argument string).
func EvalCommand(rules []Rule, cmd, argstr string) CmdVerdict {
	a, ra := evalCmd(rules, cmd, argstr, false)
	b, _ := evalCmd(rules, cmd, argstr, true)
	return CmdVerdict{Permit: a, AltPermit: b, ReachedInvalid: ra}
}

// ASV splits attribute, separator, value of an argument (after trimming).
func ASV(arg string) (a, s, v string) {
	arg = strings.TrimSpace(arg)
	i := strings.IndexAny(arg, "=*")
	if i < 0 {
		return "", "", ""
	}
	return arg[:i], arg[i : i+1], arg[i+1:]
}

// CommandRequest extracts (is command authorization, cmd, argument string) from request arguments:
// command authorization means service shell and a mandatory, non-empty cmd attribute.
func CommandRequest(args []string) (isCmd bool, cmd, argstr string) {
	service, haveService := "", false
	cmdA, cmdS, cmdV, haveCmd := "", "", "", false
	for _, x := range args {
		a, s, v := ASV(x)
		if a == "service" && !haveService {
			service, haveService = v, true
		}
		if a == "cmd" && !haveCmd {
			cmdA, cmdS, cmdV, haveCmd = a, s, v, true
		}
	}
	if service != "shell" || cmdA != "cmd" || cmdS != "=" || cmdV == "" {
		return false, "", ""
	}
	var parts []string
	for i, x := range args {
		a, _, v := ASV(x)
		if a != "cmd-arg" {
			continue
		}
		if i == len(args)-1 && strings.ToLower(v) == "<cr>" {
			continue
		}
		parts = append(parts, v)
	}
	return true, cmdV, strings.Join(parts, " ")
}

// Val is a configured value of a service.
type Val struct {
	Name     string
	Values   []string
	Optional bool
}

func (v Val) String() string {
	sep := "="
	if v.Optional {
		sep = "*"
	}
	return strings.TrimSpace(v.Name + sep + strings.Join(v.Values, " "))
}

// Svc is a configured service.
type Svc struct {
	Name  string
	Match []Val
	Set   []Val
}

// SessVerdict is the reference outcome of a session authorization.
type SessVerdict struct {
	Values   map[string]bool // set of returned attribute-value strings
	MustRepl bool            // a returned value is optional
	MustAdd  bool            // nothing optional is involved anywhere
}

// EvalSession: returns the configured values of those services whose name and match conditions are
// satisfied by the request's arguments plus the connection's scope (injected as scope=<name>).
func EvalSession(svcs []Svc, args []string, scope string) SessVerdict {
	all := append(append([]string{}, args...), "scope="+scope)
	kv := map[string]string{}
	for _, x := range all {
		a, _, v := ASV(x)
		kv[a] = v
	}
	out := SessVerdict{Values: map[string]bool{}, MustAdd: true}
	for _, s := range svcs {
		name := strings.TrimSpace(s.Name)
		named := false
		for _, x := range all {
			a, sep, v := ASV(x)
			if a == name || v == name {
				named = true
				if a != "cmd" && sep == "*" {
					out.MustAdd = false // the request marked this argument optional
				}
			}
		}
		if !named {
			continue
		}
		for _, v := range s.Set {
			if v.Optional {
				out.MustAdd = false
			}
		}
		ok := true
		for _, m := range s.Match {
			got, present := kv[m.Name]
			if !present {
				ok = false
			}
			for _, want := range m.Values {
				if got != want {
					ok = false
				}
			}
		}
		if !ok {
			continue
		}
		for _, v := range s.Set {
			out.Values[v.String()] = true
			if v.Optional {
				out.MustRepl = true
			}
		}
	}
	if len(out.Values) == 0 {
		out.MustAdd, out.MustRepl = false, false
	}
	return out
}
