package vsyncrt

import (
	"fmt"
	"unsafe"
)

// Mutex replaces sync.Mutex.
type Mutex struct {
	locked bool
}

type lockOp struct{ m *Mutex }

//go:norace
func (o *lockOp) enabled() bool { return !o.m.locked }

//go:norace
func (o *lockOp) name() string { return fmt.Sprintf("Mutex.Lock %p", o.m) }

// Lock ...
//
//go:norace
func (m *Mutex) Lock() {
	if s := active; s != nil {
		if s.aborting {
			m.locked = true
			return
		}
		s.point(&lockOp{m})
		if s.nmtx < len(s.mtx) {
			s.mtx[s.nmtx] = m
			s.nmtx++
		}
	} else if m.locked {
		panic("vsyncrt: Mutex.Lock would block outside a controlled execution")
	}
	m.locked = true
	raceAcquire(unsafe.Pointer(m))
}

// Unlock ...
//
//go:norace
func (m *Mutex) Unlock() {
	if s := active; s != nil {
		if s.aborting {
			m.locked = false // objects that outlive an execution (package-level locks) must not stay locked
			return
		}
		s.point(&plainOp{"Mutex.Unlock"})
	}
	if !m.locked {
		panic("sync: unlock of unlocked mutex")
	}
	raceRelease(unsafe.Pointer(m))
	m.locked = false
}

// TryLock ...
//
//go:norace
func (m *Mutex) TryLock() bool {
	if s := active; s != nil {
		if s.aborting {
			return true
		}
		s.point(&plainOp{"Mutex.TryLock"})
	}
	if m.locked {
		return false
	}
	m.locked = true
	raceAcquire(unsafe.Pointer(m))
	return true
}

// RWMutex replaces sync.RWMutex.
type RWMutex struct {
	writer  bool
	readers int
	rtok    byte
}

type wlockOp struct{ m *RWMutex }

//go:norace
func (o *wlockOp) enabled() bool { return !o.m.writer && o.m.readers == 0 }

//go:norace
func (o *wlockOp) name() string { return fmt.Sprintf("RWMutex.Lock %p", o.m) }

type rlockOp struct{ m *RWMutex }

//go:norace
func (o *rlockOp) enabled() bool { return !o.m.writer }

//go:norace
func (o *rlockOp) name() string { return fmt.Sprintf("RWMutex.RLock %p", o.m) }

// Lock ...
//
//go:norace
func (m *RWMutex) Lock() {
	if s := active; s != nil {
		if s.aborting {
			return
		}
		s.point(&wlockOp{m})
		if s.nrwm < len(s.rwm) {
			s.rwm[s.nrwm] = m
			s.nrwm++
		}
	} else if m.writer || m.readers > 0 {
		panic("vsyncrt: RWMutex.Lock would block outside a controlled execution")
	}
	m.writer = true
	raceAcquire(unsafe.Pointer(m))
	raceAcquire(unsafe.Pointer(&m.rtok))
}

// Unlock ...
//
//go:norace
func (m *RWMutex) Unlock() {
	if s := active; s != nil {
		if s.aborting {
			m.writer = false
			return
		}
		s.point(&plainOp{"RWMutex.Unlock"})
	}
	if !m.writer {
		panic("sync: Unlock of unlocked RWMutex")
	}
	raceRelease(unsafe.Pointer(m))
	m.writer = false
}

// RLock ...
//
//go:norace
func (m *RWMutex) RLock() {
	if s := active; s != nil {
		if s.aborting {
			return
		}
		s.point(&rlockOp{m})
		if s.nrwm < len(s.rwm) {
			s.rwm[s.nrwm] = m
			s.nrwm++
		}
	} else if m.writer {
		panic("vsyncrt: RWMutex.RLock would block outside a controlled execution")
	}
	m.readers++
	raceAcquire(unsafe.Pointer(m))
}

// RUnlock ...
//
//go:norace
func (m *RWMutex) RUnlock() {
	if s := active; s != nil {
		if s.aborting {
			if m.readers > 0 {
				m.readers--
			}
			return
		}
		s.point(&plainOp{"RWMutex.RUnlock"})
	}
	if m.readers <= 0 {
		panic("sync: RUnlock of unlocked RWMutex")
	}
	raceReleaseMerge(unsafe.Pointer(&m.rtok))
	m.readers--
}

// WaitGroup replaces sync.WaitGroup.
type WaitGroup struct {
	n int
}

type wgWaitOp struct{ w *WaitGroup }

//go:norace
func (o *wgWaitOp) enabled() bool { return o.w.n == 0 }

//go:norace
func (o *wgWaitOp) name() string { return fmt.Sprintf("WaitGroup.Wait %p (counter %d)", o.w, o.w.n) }

// Add ...
//
//go:norace
func (w *WaitGroup) Add(delta int) {
	if s := active; s != nil {
		if s.aborting {
			return
		}
		s.point(&plainOp{"WaitGroup.Add"})
	}
	if delta < 0 {
		raceReleaseMerge(unsafe.Pointer(w))
	}
	w.n += delta
	if w.n < 0 {
		panic("sync: negative WaitGroup counter")
	}
}

// Done ...
//
//go:norace
func (w *WaitGroup) Done() { w.Add(-1) }

// Wait ...
//
//go:norace
func (w *WaitGroup) Wait() {
	if s := active; s != nil {
		if s.aborting {
			return
		}
		s.point(&wgWaitOp{w})
	} else if w.n != 0 {
		panic("vsyncrt: WaitGroup.Wait would block outside a controlled execution")
	}
	raceAcquire(unsafe.Pointer(w))
}

// Once replaces sync.Once.
type Once struct {
	done bool
	m    Mutex
}

// Do ...
//
//go:norace
func (o *Once) Do(f func()) {
	if s := active; s != nil && s.aborting {
		return
	}
	o.m.Lock()
	if !o.done {
		o.done = true
		f()
	}
	o.m.Unlock()
}

// Locker mirrors sync.Locker.
type Locker interface {
	Lock()
	Unlock()
}

// Pool replaces sync.Pool: a deterministic LIFO free list (the real pool's per-P caches behave the same for the
// goroutines of one P; victim-cache eviction by the garbage collector is not modelled).
type Pool struct {
	New   func() any
	items [64]any
	n     int
	tok   byte
}

// Get ...
//
//go:norace
func (p *Pool) Get() any {
	if s := active; s != nil && !s.aborting {
		s.point(&plainOp{"Pool.Get"})
	}
	if p.n > 0 {
		p.n--
		x := p.items[p.n]
		p.items[p.n] = nil
		raceAcquire(unsafe.Pointer(&p.tok))
		return x
	}
	if p.New != nil {
		return p.New()
	}
	return nil
}

// Put ...
//
//go:norace
func (p *Pool) Put(x any) {
	if x == nil {
		return
	}
	if s := active; s != nil && !s.aborting {
		s.point(&plainOp{"Pool.Put"})
	}
	raceReleaseMerge(unsafe.Pointer(&p.tok))
	if p.n < len(p.items) {
		p.items[p.n] = x
		p.n++
	}
}

// TryLock ...
//
//go:norace
func (m *RWMutex) TryLock() bool {
	if s := active; s != nil {
		if s.aborting {
			return true
		}
		s.point(&plainOp{"RWMutex.TryLock"})
	}
	if m.writer || m.readers > 0 {
		return false
	}
	m.writer = true
	raceAcquire(unsafe.Pointer(m))
	raceAcquire(unsafe.Pointer(&m.rtok))
	return true
}

// TryRLock ...
//
//go:norace
func (m *RWMutex) TryRLock() bool {
	if s := active; s != nil {
		if s.aborting {
			return true
		}
		s.point(&plainOp{"RWMutex.TryRLock"})
	}
	if m.writer {
		return false
	}
	m.readers++
	raceAcquire(unsafe.Pointer(m))
	return true
}

type rlocker RWMutex

func (r *rlocker) Lock()   { (*RWMutex)(r).RLock() }
func (r *rlocker) Unlock() { (*RWMutex)(r).RUnlock() }

// RLocker ...
func (m *RWMutex) RLocker() Locker { return (*rlocker)(m) }

// Go mirrors sync.WaitGroup.Go (Go 1.25).
func (w *WaitGroup) Go(f func()) {
	w.Add(1)
	Go(func() {
		defer w.Done()
		f()
	})
}

// OnceFunc mirrors sync.OnceFunc.
func OnceFunc(f func()) func() {
	var o Once
	return func() { o.Do(f) }
}

// OnceValue mirrors sync.OnceValue.
func OnceValue[T any](f func() T) func() T {
	var o Once
	var v T
	return func() T {
		o.Do(func() { v = f() })
		return v
	}
}

// OnceValues mirrors sync.OnceValues.
func OnceValues[T1, T2 any](f func() (T1, T2)) func() (T1, T2) {
	var o Once
	var v1 T1
	var v2 T2
	return func() (T1, T2) {
		o.Do(func() { v1, v2 = f() })
		return v1, v2
	}
}

// Cond replaces sync.Cond: waiters queue up in arrival order, Signal releases the oldest, Broadcast all.
type Cond struct {
	L       Locker
	next    int // ticket handed to the next waiter
	release int // tickets below this value may proceed
	waiting int
	tok     byte
}

// NewCond ...
func NewCond(l Locker) *Cond { return &Cond{L: l} }

type condWaitOp struct {
	c      *Cond
	ticket int
}

//go:norace
func (o *condWaitOp) enabled() bool { return o.ticket < o.c.release }

//go:norace
func (o *condWaitOp) name() string { return fmt.Sprintf("Cond.Wait %p (ticket %d)", o.c, o.ticket) }

// Wait ...
//
//go:norace
func (c *Cond) Wait() {
	s := active
	if s == nil {
		panic("vsyncrt: Cond.Wait outside a controlled execution")
	}
	if s.aborting {
		panic(abortSentinel{})
	}
	t := c.next
	c.next++
	c.waiting++
	c.L.Unlock()
	s.point(&condWaitOp{c, t})
	raceAcquire(unsafe.Pointer(&c.tok))
	c.L.Lock()
}

// Signal ...
//
//go:norace
func (c *Cond) Signal() {
	if s := active; s != nil {
		if s.aborting {
			return
		}
		s.point(&plainOp{"Cond.Signal"})
	}
	raceReleaseMerge(unsafe.Pointer(&c.tok))
	if c.waiting > 0 {
		c.waiting--
		c.release++
	}
}

// Broadcast ...
//
//go:norace
func (c *Cond) Broadcast() {
	if s := active; s != nil {
		if s.aborting {
			return
		}
		s.point(&plainOp{"Cond.Broadcast"})
	}
	raceReleaseMerge(unsafe.Pointer(&c.tok))
	c.release += c.waiting
	c.waiting = 0
}

// Map replaces sync.Map: a small insertion-ordered association list (no runtime map, whose internals carry race hooks the
// scheduler's hand-offs would trip). Every operation is a scheduling point and synchronises like the real one.
type Map struct {
	keys [512]any
	vals [512]any
	n    int
	tok  byte
}

//go:norace
func (m *Map) op(name string) {
	if s := active; s != nil && !s.aborting {
		s.point(&plainOp{name})
	}
	raceAcquire(unsafe.Pointer(&m.tok))
	raceReleaseMerge(unsafe.Pointer(&m.tok))
}

//go:norace
func (m *Map) find(k any) int {
	for i := 0; i < m.n; i++ {
		if m.keys[i] == k {
			return i
		}
	}
	return -1
}

//go:norace
func (m *Map) removeAt(i int) {
	for j := i; j+1 < m.n; j++ {
		m.keys[j], m.vals[j] = m.keys[j+1], m.vals[j+1]
	}
	m.n--
	m.keys[m.n], m.vals[m.n] = nil, nil
}

// Load ...
//
//go:norace
func (m *Map) Load(k any) (any, bool) {
	m.op("Map.Load")
	if i := m.find(k); i >= 0 {
		return m.vals[i], true
	}
	return nil, false
}

// Store ...
//
//go:norace
func (m *Map) Store(k, v any) { m.Swap(k, v) }

// Swap ...
//
//go:norace
func (m *Map) Swap(k, v any) (any, bool) {
	m.op("Map.Store")
	if i := m.find(k); i >= 0 {
		old := m.vals[i]
		m.vals[i] = v
		return old, true
	}
	if m.n == len(m.keys) {
		panic("vsyncrt: Map is full")
	}
	m.keys[m.n], m.vals[m.n] = k, v
	m.n++
	return nil, false
}

// LoadOrStore ...
//
//go:norace
func (m *Map) LoadOrStore(k, v any) (any, bool) {
	m.op("Map.LoadOrStore")
	if i := m.find(k); i >= 0 {
		return m.vals[i], true
	}
	if m.n == len(m.keys) {
		panic("vsyncrt: Map is full")
	}
	m.keys[m.n], m.vals[m.n] = k, v
	m.n++
	return v, false
}

// LoadAndDelete ...
//
//go:norace
func (m *Map) LoadAndDelete(k any) (any, bool) {
	m.op("Map.LoadAndDelete")
	if i := m.find(k); i >= 0 {
		v := m.vals[i]
		m.removeAt(i)
		return v, true
	}
	return nil, false
}

// Delete ...
//
//go:norace
func (m *Map) Delete(k any) { m.LoadAndDelete(k) }

// CompareAndSwap ...
//
//go:norace
func (m *Map) CompareAndSwap(k, old, new any) bool {
	m.op("Map.CompareAndSwap")
	if i := m.find(k); i >= 0 && m.vals[i] == old {
		m.vals[i] = new
		return true
	}
	return false
}

// CompareAndDelete ...
//
//go:norace
func (m *Map) CompareAndDelete(k, old any) bool {
	m.op("Map.CompareAndDelete")
	if i := m.find(k); i >= 0 && m.vals[i] == old {
		m.removeAt(i)
		return true
	}
	return false
}

// Range visits a snapshot of the entries in insertion order.
//
//go:norace
func (m *Map) Range(f func(k, v any) bool) {
	m.op("Map.Range")
	var ks, vs [512]any
	n := m.n
	for i := 0; i < n; i++ {
		ks[i], vs[i] = m.keys[i], m.vals[i]
	}
	for i := 0; i < n; i++ {
		if !f(ks[i], vs[i]) {
			return
		}
	}
}

// Clear ...
//
//go:norace
func (m *Map) Clear() {
	m.op("Map.Clear")
	for i := 0; i < m.n; i++ {
		m.keys[i], m.vals[i] = nil, nil
	}
	m.n = 0
}
