package vsyncrt

import (
	"fmt"
	"unsafe"
)

// Mutex replaces sync.Mutex.
type Mutex struct {
	locked bool
}

type lockOp struct{ m *Mutex }

//go:norace
func (o *lockOp) enabled() bool { return !o.m.locked }

//go:norace
func (o *lockOp) name() string { return fmt.Sprintf("Mutex.Lock %p", o.m) }

// Lock ...
//
//go:norace
func (m *Mutex) Lock() {
	if s := active; s != nil {
		if s.aborting {
			m.locked = true
			return
		}
		s.point(&lockOp{m})
		if s.nmtx < len(s.mtx) {
			s.mtx[s.nmtx] = m
			s.nmtx++
		}
	} else if m.locked {
		panic("vsyncrt: Mutex.Lock would block outside a controlled execution")
	}
	m.locked = true
	raceAcquire(unsafe.Pointer(m))
}

// Unlock ...
//
//go:norace
func (m *Mutex) Unlock() {
	if s := active; s != nil {
		if s.aborting {
			m.locked = false // objects that outlive an execution (package-level locks) must not stay locked
			return
		}
		s.point(&plainOp{"Mutex.Unlock"})
	}
	if !m.locked {
		panic("sync: unlock of unlocked mutex")
	}
	raceRelease(unsafe.Pointer(m))
	m.locked = false
}

// TryLock ...
//
//go:norace
func (m *Mutex) TryLock() bool {
	if s := active; s != nil {
		if s.aborting {
			return true
		}
		s.point(&plainOp{"Mutex.TryLock"})
	}
	if m.locked {
		return false
	}
	m.locked = true
	raceAcquire(unsafe.Pointer(m))
	return true
}

// RWMutex replaces sync.RWMutex.
type RWMutex struct {
	writer  bool
	readers int
	rtok    byte
}

type wlockOp struct{ m *RWMutex }

//go:norace
func (o *wlockOp) enabled() bool { return !o.m.writer && o.m.readers == 0 }

//go:norace
func (o *wlockOp) name() string { return fmt.Sprintf("RWMutex.Lock %p", o.m) }

type rlockOp struct{ m *RWMutex }

//go:norace
func (o *rlockOp) enabled() bool { return !o.m.writer }

//go:norace
func (o *rlockOp) name() string { return fmt.Sprintf("RWMutex.RLock %p", o.m) }

// Lock ...
//
//go:norace
func (m *RWMutex) Lock() {
	if s := active; s != nil {
		if s.aborting {
			return
		}
		s.point(&wlockOp{m})
		if s.nrwm < len(s.rwm) {
			s.rwm[s.nrwm] = m
			s.nrwm++
		}
	} else if m.writer || m.readers > 0 {
		panic("vsyncrt: RWMutex.Lock would block outside a controlled execution")
	}
	m.writer = true
	raceAcquire(unsafe.Pointer(m))
	raceAcquire(unsafe.Pointer(&m.rtok))
}

// Unlock ...
//
//go:norace
func (m *RWMutex) Unlock() {
	if s := active; s != nil {
		if s.aborting {
			m.writer = false
			return
		}
		s.point(&plainOp{"RWMutex.Unlock"})
	}
	if !m.writer {
		panic("sync: Unlock of unlocked RWMutex")
	}
	raceRelease(unsafe.Pointer(m))
	m.writer = false
}

// RLock ...
//
//go:norace
func (m *RWMutex) RLock() {
	if s := active; s != nil {
		if s.aborting {
			return
		}
		s.point(&rlockOp{m})
		if s.nrwm < len(s.rwm) {
			s.rwm[s.nrwm] = m
			s.nrwm++
		}
	} else if m.writer {
		panic("vsyncrt: RWMutex.RLock would block outside a controlled execution")
	}
	m.readers++
	raceAcquire(unsafe.Pointer(m))
}

// RUnlock ...
//
//go:norace
func (m *RWMutex) RUnlock() {
	if s := active; s != nil {
		if s.aborting {
			if m.readers > 0 {
				m.readers--
			}
			return
		}
		s.point(&plainOp{"RWMutex.RUnlock"})
	}
	if m.readers <= 0 {
		panic("sync: RUnlock of unlocked RWMutex")
	}
	raceReleaseMerge(unsafe.Pointer(&m.rtok))
	m.readers--
}

// WaitGroup replaces sync.WaitGroup.
type WaitGroup struct {
	n int
}

type wgWaitOp struct{ w *WaitGroup }

//go:norace
func (o *wgWaitOp) enabled() bool { return o.w.n == 0 }

//go:norace
func (o *wgWaitOp) name() string { return fmt.Sprintf("WaitGroup.Wait %p (counter %d)", o.w, o.w.n) }

// Add ...
//
//go:norace
func (w *WaitGroup) Add(delta int) {
	if s := active; s != nil {
		if s.aborting {
			return
		}
		s.point(&plainOp{"WaitGroup.Add"})
	}
	if delta < 0 {
		raceReleaseMerge(unsafe.Pointer(w))
	}
	w.n += delta
	if w.n < 0 {
		panic("sync: negative WaitGroup counter")
	}
}

// Done ...
//
//go:norace
func (w *WaitGroup) Done() { w.Add(-1) }

// Wait ...
//
//go:norace
func (w *WaitGroup) Wait() {
	if s := active; s != nil {
		if s.aborting {
			return
		}
		s.point(&wgWaitOp{w})
	} else if w.n != 0 {
		panic("vsyncrt: WaitGroup.Wait would block outside a controlled execution")
	}
	raceAcquire(unsafe.Pointer(w))
}

// Once replaces sync.Once.
type Once struct {
	done bool
	m    Mutex
}

// Do ...
//
//go:norace
func (o *Once) Do(f func()) {
	if s := active; s != nil && s.aborting {
		return
	}
	o.m.Lock()
	if !o.done {
		o.done = true
		f()
	}
	o.m.Unlock()
}

// Locker mirrors sync.Locker.
type Locker interface {
	Lock()
	Unlock()
}

// Pool replaces sync.Pool: a deterministic LIFO free list (the real pool's per-P caches behave the same for the
// goroutines of one P; victim-cache eviction by the garbage collector is not modelled).
type Pool struct {
	New   func() any
	items [64]any
	n     int
	tok   byte
}

// Get ...
//
//go:norace
func (p *Pool) Get() any {
	if s := active; s != nil && !s.aborting {
		s.point(&plainOp{"Pool.Get"})
	}
	if p.n > 0 {
		p.n--
		x := p.items[p.n]
		p.items[p.n] = nil
		raceAcquire(unsafe.Pointer(&p.tok))
		return x
	}
	if p.New != nil {
		return p.New()
	}
	return nil
}

// Put ...
//
//go:norace
func (p *Pool) Put(x any) {
	if x == nil {
		return
	}
	if s := active; s != nil && !s.aborting {
		s.point(&plainOp{"Pool.Put"})
	}
	raceReleaseMerge(unsafe.Pointer(&p.tok))
	if p.n < len(p.items) {
		p.items[p.n] = x
		p.n++
	}
}
