package vsyncrt

import (
	"errors"
	"fmt"
	"io"
	"net"
	"time"
	"unsafe"
)

// Scheduler-aware scripted network: blocking in Read / Accept is a blocked thread, feeding data,
// firing a deadline and closing are operations of harness threads.

// NetEvent is one logged call on a connection or listener.
type NetEvent struct {
	Seq   int
	Kind  string // read, readpark, write, close, rdeadline, deadline, accept, lclose
	N     int
	Err   string
	T     time.Time
	Armed bool // for read: a finite deadline later than now was armed since the previous read
}

// World orders events of all its connections.
type World struct {
	seq    int
	Events []NetEvent
	tok    byte
}

// NewWorld preallocates the event log (nothing in this package grows a shared slice through the runtime).
//
//go:norace
func NewWorld() *World { return &World{Events: make([]NetEvent, 0, 4096)} }

//go:norace
func (w *World) addEvent(e NetEvent) {
	if len(w.Events) < cap(w.Events) {
		w.Events = append(w.Events, e)
	}
}

//go:norace
func (w *World) tick() int { w.seq++; return w.seq }

// Seq returns the current event index.
//
//go:norace
func (w *World) Seq() int { return w.seq }

// Mark logs a harness-level event (handler entry/exit, Serve returned ...) on the world clock.
//
//go:norace
func (w *World) Mark(kind string) int {
	n := w.tick()
	w.addEvent(NetEvent{Seq: n, Kind: kind})
	return n
}

type timeoutErr struct{}

func (timeoutErr) Error() string   { return "i/o timeout (vsyncrt)" }
func (timeoutErr) Timeout() bool   { return true }
func (timeoutErr) Temporary() bool { return true }

type connItem struct {
	data []byte
	err  error
}

// Conn is a scripted net.Conn under the scheduler.
type Conn struct {
	W        *World
	ID       int
	qarr     [128]connItem
	qhead    int
	qlen     int
	closed   bool
	out      []byte
	remote   net.Addr
	Log      []NetEvent
	deadline time.Time
	armed    bool // a deadline was set since the last Read returned
	parked   bool
	tokIn    byte
	tokOut   byte
}

// NewConn ...
//
//go:norace
func (w *World) NewConn(id int, remote net.Addr) *Conn {
	return &Conn{W: w, ID: id, remote: remote, Log: make([]NetEvent, 0, 2048), out: make([]byte, 0, 4096)}
}

//go:norace
func (c *Conn) log(kind string, n int, err string, t time.Time, armed bool) {
	e := NetEvent{Seq: c.W.tick(), Kind: kind, N: n, Err: err, T: t, Armed: armed}
	if len(c.Log) < cap(c.Log) {
		c.Log = append(c.Log, e)
	}
}

type readOp struct{ c *Conn }

//go:norace
func (o *readOp) enabled() bool { return o.c.qlen > 0 || o.c.closed }

//go:norace
func (o *readOp) name() string { return fmt.Sprintf("Conn%d.Read", o.c.ID) }

// Read ...
//
//go:norace
func (c *Conn) Read(p []byte) (int, error) {
	s := active
	if s != nil && s.aborting {
		return 0, io.EOF
	}
	// a deadline persists until it is changed, like on a real connection; "armed" = the last deadline set was
	// finite and lay in the future when it was set
	armed := c.armed
	if !c.deadline.IsZero() && !c.deadline.After(Now()) && !c.closed {
		// the deadline has already expired: the read fails at once, as on a real connection
		if s != nil {
			s.point(&plainOp{fmt.Sprintf("Conn%d.Read (deadline expired)", c.ID)})
		}
		c.log("read", 0, "i/o timeout (deadline already expired)", c.deadline, armed)
		return 0, timeoutErr{}
	}
	if s != nil {
		if c.qlen == 0 && !c.closed {
			c.parked = true
			c.log("readpark", 0, "", c.deadline, armed)
		}
		s.point(&readOp{c})
		c.parked = false
	} else if c.qlen == 0 && !c.closed {
		panic("vsyncrt: Conn.Read would block outside a controlled execution")
	}
	raceAcquire(unsafe.Pointer(&c.tokIn))
	if c.closed {
		c.log("read", 0, "closed", time.Time{}, armed)
		return 0, net.ErrClosed
	}
	it := c.qarr[c.qhead]
	if it.err != nil {
		c.qpop()
		c.log("read", 0, it.err.Error(), time.Time{}, armed)
		return 0, it.err
	}
	n := len(it.data)
	if n > len(p) {
		n = len(p)
	}
	for i := 0; i < n; i++ {
		p[i] = it.data[i]
	}
	if n < len(it.data) {
		c.qarr[c.qhead].data = it.data[n:]
	} else {
		c.qpop()
	}
	c.log("read", n, "", time.Time{}, armed)
	return n, nil
}

//go:norace
func (c *Conn) qpop() {
	c.qarr[c.qhead] = connItem{}
	c.qhead = (c.qhead + 1) % len(c.qarr)
	c.qlen--
}

//go:norace
func (c *Conn) qpush(it connItem) {
	if c.qlen == len(c.qarr) {
		panic("vsyncrt: connection queue full")
	}
	c.qarr[(c.qhead+c.qlen)%len(c.qarr)] = it
	c.qlen++
}

// Write ...
//
//go:norace
func (c *Conn) Write(p []byte) (int, error) {
	s := active
	if s != nil && s.aborting {
		return 0, net.ErrClosed
	}
	if s != nil {
		s.point(&plainOp{fmt.Sprintf("Conn%d.Write", c.ID)})
	}
	if c.closed {
		return 0, net.ErrClosed
	}
	if len(c.out)+len(p) > cap(c.out) {
		bigger := make([]byte, len(c.out), 2*(len(c.out)+len(p)))
		for i := range c.out {
			bigger[i] = c.out[i]
		}
		c.out = bigger
	}
	base := len(c.out)
	c.out = c.out[:base+len(p)]
	for i := range p {
		c.out[base+i] = p[i]
	}
	raceReleaseMerge(unsafe.Pointer(&c.tokOut))
	c.log("write", len(p), "", time.Time{}, false)
	return len(p), nil
}

// Close ...
//
//go:norace
func (c *Conn) Close() error {
	s := active
	if s != nil && s.aborting {
		return nil
	}
	if s != nil {
		s.point(&plainOp{fmt.Sprintf("Conn%d.Close", c.ID)})
	}
	if c.closed {
		return net.ErrClosed
	}
	c.closed = true
	raceReleaseMerge(unsafe.Pointer(&c.tokOut))
	raceReleaseMerge(unsafe.Pointer(&c.tokIn))
	c.log("close", 0, "", time.Time{}, false)
	return nil
}

// LocalAddr ...
//
//go:norace
func (c *Conn) LocalAddr() net.Addr { return &net.TCPAddr{IP: net.IPv4(192, 0, 2, 1), Port: 49} }

// RemoteAddr ...
//
//go:norace
func (c *Conn) RemoteAddr() net.Addr { return c.remote }

// SetDeadline ...
//
//go:norace
func (c *Conn) SetDeadline(t time.Time) error {
	c.deadline, c.armed = t, !t.IsZero() && t.After(Now())
	c.log("deadline", 0, "", t, false)
	return nil
}

// SetReadDeadline ...
//
//go:norace
func (c *Conn) SetReadDeadline(t time.Time) error {
	c.deadline, c.armed = t, !t.IsZero() && t.After(Now())
	c.log("rdeadline", 0, "", t, false)
	return nil
}

// SetWriteDeadline ...
//
//go:norace
func (c *Conn) SetWriteDeadline(t time.Time) error { return nil }

// ---- harness side of a connection ----

// Feed queues bytes (one chunk = one Read); a scheduling point of the calling harness thread.
//
//go:norace
func (c *Conn) Feed(b []byte) {
	s := active
	if s != nil && s.aborting {
		return
	}
	if s != nil {
		s.point(&plainOp{fmt.Sprintf("client%d feeds %d bytes", c.ID, len(b))})
	}
	cp := make([]byte, len(b))
	for i := range b {
		cp[i] = b[i]
	}
	c.qpush(connItem{data: cp})
	raceReleaseMerge(unsafe.Pointer(&c.tokIn))
}

// FeedEOF queues a client close.
//
//go:norace
func (c *Conn) FeedEOF() { c.feedErr(io.EOF, "closes") }

// FireDeadline makes the pending (or next) Read fail with a timeout, as an expired read deadline does.
//
//go:norace
func (c *Conn) FireDeadline() { c.feedErr(timeoutErr{}, "deadline fires") }

// ExpireIfDue is the clock-driven form of FireDeadline: the pending Read fails with a timeout only if the deadline that
// is in force right now has been reached on the virtual clock (a re-armed deadline is honoured, as by a real socket).
// It is a scheduling point either way. Reports whether a timeout was delivered.
//
//go:norace
func (c *Conn) ExpireIfDue() bool {
	s := active
	if s != nil && s.aborting {
		return false
	}
	if s != nil {
		s.point(&plainOp{fmt.Sprintf("client%d clock check", c.ID)})
	}
	if c.closed || !c.parked || c.deadline.IsZero() || c.deadline.After(Now()) {
		return false
	}
	c.qpush(connItem{err: timeoutErr{}})
	raceReleaseMerge(unsafe.Pointer(&c.tokIn))
	return true
}

//go:norace
func (c *Conn) feedErr(e error, what string) {
	s := active
	if s != nil && s.aborting {
		return
	}
	if s != nil {
		s.point(&plainOp{fmt.Sprintf("client%d %s", c.ID, what)})
	}
	c.qpush(connItem{err: e})
	raceReleaseMerge(unsafe.Pointer(&c.tokIn))
}

type awaitOp struct {
	c *Conn
	n int
}

//go:norace
func (o *awaitOp) enabled() bool { return len(o.c.out) >= o.n || o.c.closed }

//go:norace
func (o *awaitOp) name() string { return fmt.Sprintf("client%d awaits %d bytes", o.c.ID, o.n) }

// Await blocks the calling harness thread until at least n bytes were written or the connection is closed,
// and returns (and clears) everything written so far.
//
//go:norace
func (c *Conn) Await(n int) ([]byte, bool) {
	s := active
	if s != nil && s.aborting {
		return nil, true
	}
	if s != nil {
		s.point(&awaitOp{c, n})
	}
	raceAcquire(unsafe.Pointer(&c.tokOut))
	b := c.out
	c.out = make([]byte, 0, 4096)
	return b, c.closed
}

// Closed reports whether the server closed the connection.
//
//go:norace
func (c *Conn) Closed() bool { return c.closed }

// Parked reports whether a Read is parked.
//
//go:norace
func (c *Conn) Parked() bool { return c.parked }

// Pending reports undelivered items.
//
//go:norace
func (c *Conn) Pending() int { return c.qlen }

// ---- listener ----

// Listener is a scripted tacquito.DeadlineListener under the scheduler.
type Listener struct {
	W        *World
	carr     [16]net.Conn
	conns    []net.Conn
	earr     [32]error
	errs     []error
	closed   bool
	Accepted int
	CloseSeq int
	parked   bool
	tok      byte
}

// NewListener ...
//
//go:norace
func (w *World) NewListener() *Listener {
	l := &Listener{W: w}
	l.conns, l.errs = l.carr[:0], l.earr[:0]
	return l
}

type acceptOp struct{ l *Listener }

//go:norace
func (o *acceptOp) enabled() bool { return len(o.l.conns) > 0 || len(o.l.errs) > 0 || o.l.closed }

//go:norace
func (o *acceptOp) name() string { return "Listener.Accept" }

// Accept ...
//
//go:norace
func (l *Listener) Accept() (net.Conn, error) {
	s := active
	if s != nil && s.aborting {
		return nil, &net.OpError{Op: "accept", Err: errors.New("aborted")}
	}
	if s != nil {
		l.parked = true
		s.point(&acceptOp{l})
		l.parked = false
	}
	raceAcquire(unsafe.Pointer(&l.tok))
	if len(l.errs) > 0 {
		e := l.errs[0]
		l.errs = l.errs[1:]
		return nil, e
	}
	if l.closed || len(l.conns) == 0 {
		return nil, &net.OpError{Op: "accept", Net: "sim", Err: errors.New("use of closed network connection")}
	}
	c := l.conns[0]
	l.conns = l.conns[1:]
	l.Accepted++
	l.W.Mark("accept")
	return c, nil
}

// Close ...
//
//go:norace
func (l *Listener) Close() error {
	s := active
	if s != nil && s.aborting {
		return nil
	}
	if s != nil {
		s.point(&plainOp{"Listener.Close"})
	}
	if l.closed {
		return errListenerClosed
	}
	l.closed = true
	l.CloseSeq = l.W.Mark("lclose")
	return nil
}

var errListenerClosed = &net.OpError{Op: "close", Net: "sim", Err: net.ErrClosed}

// Addr ...
//
//go:norace
func (l *Listener) Addr() net.Addr { return &net.TCPAddr{IP: net.IPv4(192, 0, 2, 1), Port: 49} }

// SetDeadline ...
//
//go:norace
func (l *Listener) SetDeadline(t time.Time) error { return nil }

// Push queues a connection; a scheduling point of the calling harness thread.
//
//go:norace
func (l *Listener) Push(c net.Conn) {
	s := active
	if s != nil && s.aborting {
		return
	}
	if s != nil {
		s.point(&plainOp{"client connects"})
	}
	l.conns = append(l.conns, c)
	raceReleaseMerge(unsafe.Pointer(&l.tok))
}

// FireDeadline makes the pending (or next) Accept return a temporary timeout error.
//
//go:norace
func (l *Listener) FireDeadline() {
	s := active
	if s != nil && s.aborting {
		return
	}
	if s != nil {
		s.point(&plainOp{"accept deadline fires"})
	}
	l.errs = append(l.errs, &net.OpError{Op: "accept", Net: "sim", Err: timeoutErr{}})
	raceReleaseMerge(unsafe.Pointer(&l.tok))
}

// IsClosed ...
//
//go:norace
func (l *Listener) IsClosed() bool { return l.closed }

// Parked ...
//
//go:norace
func (l *Listener) Parked() bool { return l.parked }
