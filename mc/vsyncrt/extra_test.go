package vsyncrt

import (
	"testing"
	"time"
)

// explore enumerates every choice vector with at most maxDev deviations.
func explore(t *testing.T, maxDev int, body func() string) (runs int, outcomes map[string]int) {
	outcomes = map[string]int{}
	prefix := []int{}
	for {
		var obs string
		res := Run(prefix, maxDev, false, func() { obs = body() })
		runs++
		if res.Deadlock {
			t.Fatalf("deadlock under %v: %v", res.Trail, res.Blocked)
		}
		if res.Panic != "" {
			t.Fatalf("panic under %v: %s", res.Trail, res.Panic)
		}
		outcomes[obs]++
		i := len(res.Trail) - 1
		for i >= 0 && res.Trail[i]+1 >= res.Arity[i] {
			i--
		}
		if i < 0 {
			return
		}
		prefix = append(append([]int{}, res.Trail[:i]...), res.Trail[i]+1)
	}
}

func TestCondProducerConsumer(t *testing.T) {
	runs, out := explore(t, 2, func() string {
		var mu Mutex
		c := NewCond(&mu)
		ready, got := 0, 0
		var wg WaitGroup
		wg.Add(2)
		Go(func() {
			mu.Lock()
			for ready == 0 {
				c.Wait()
			}
			got = ready
			mu.Unlock()
			wg.Done()
		})
		Go(func() {
			mu.Lock()
			ready = 7
			mu.Unlock()
			c.Broadcast()
			wg.Done()
		})
		wg.Wait()
		if got != 7 {
			return "lost"
		}
		return "ok"
	})
	if len(out) != 1 || out["ok"] == 0 {
		t.Fatalf("outcomes %v after %d runs", out, runs)
	}
	t.Logf("%d schedules", runs)
}

func TestMapLoadOrStoreRace(t *testing.T) {
	runs, out := explore(t, 2, func() string {
		var m Map
		var wg WaitGroup
		wg.Add(2)
		win := [2]bool{}
		for i := 0; i < 2; i++ {
			i := i
			Go(func() {
				_, loaded := m.LoadOrStore("k", i)
				win[i] = !loaded
				wg.Done()
			})
		}
		wg.Wait()
		v, _ := m.Load("k")
		n := 0
		m.Range(func(k, v any) bool { n++; return true })
		if win[0] == win[1] || n != 1 {
			return "broken"
		}
		if v.(int) == 0 {
			return "first"
		}
		return "second"
	})
	if out["broken"] != 0 || out["first"] == 0 || out["second"] == 0 {
		t.Fatalf("outcomes %v after %d runs", out, runs)
	}
	t.Logf("%d schedules, outcomes %v", runs, out)
}

func TestSelectSend(t *testing.T) {
	// a producer offers values with "select { case ch <- v: case <-quit: }"; a consumer takes two and then asks it to quit
	runs, out := explore(t, 2, func() string {
		ch := MakeChan[int]()
		quit := MakeChan[struct{}]()
		var wg WaitGroup
		wg.Add(2)
		sent, got := 0, 0
		Go(func() {
			defer wg.Done()
			for i := 1; ; i++ {
				switch Select(false, ch.SendCase(i), quit.RecvCase()) {
				case 0:
					sent++
				case 1:
					return
				}
			}
		})
		Go(func() {
			defer wg.Done()
			got += ch.Recv()
			got += ch.Recv()
			quit.Close()
		})
		wg.Wait()
		if got != 3 || sent < 2 || sent > 3 {
			return "broken"
		}
		return "ok"
	})
	if out["broken"] != 0 || out["ok"] == 0 {
		t.Fatalf("outcomes %v after %d runs", out, runs)
	}
	t.Logf("%d schedules", runs)
}

func TestSelectSendBuffered(t *testing.T) {
	_, out := explore(t, 1, func() string {
		ch := MakeChan[int](1)
		n := 0
		for i := 0; i < 3; i++ {
			if Select(true, ch.SendCase(i)) == 0 {
				n++
			}
		}
		if n != 1 || ch.Len() != 1 {
			return "broken"
		}
		return "ok"
	})
	if out["broken"] != 0 {
		t.Fatalf("outcomes %v", out)
	}
}

// A ticker-driven flusher and a writer: the explorer must see the tick before, between and after the writes.
func TestTickerInterleavesWithWriter(t *testing.T) {
	runs, out := explore(t, 2, func() string {
		var mu Mutex
		buf, flushed := 0, ""
		tk := NewTicker(time.Second)
		Go(func() {
			for {
				_, ok := tk.C.Recv2()
				if !ok {
					return
				}
				mu.Lock()
				flushed += string(rune('0' + buf))
				buf = 0
				mu.Unlock()
			}
		})
		for i := 0; i < 2; i++ {
			mu.Lock()
			buf++
			mu.Unlock()
			if i == 0 {
				Quiesce() // a timer that only waits for the clock does not keep the program busy
				Advance(time.Second)
			}
		}
		Quiesce()
		Advance(time.Second)
		Quiesce() // a due one does
		mu.Lock()
		defer mu.Unlock()
		return flushed
	})
	t.Logf("runs=%d outcomes=%v", runs, out)
	if len(out) != 2 || out["11"] == 0 || out["20"] == 0 {
		t.Fatalf("outcomes %v, want the tick before and after the second write", out)
	}
}

// Time passes when everybody waits: a sleeper is woken although nobody advances the clock, timers fire in due order.
func TestSleepAndAfterFunc(t *testing.T) {
	_, out := explore(t, 1, func() string {
		order := ""
		var mu Mutex
		done := MakeChan[int](2)
		AfterFunc(3*time.Second, func() { mu.Lock(); order += "f"; mu.Unlock(); done.Send(1) })
		Go(func() { Sleep(time.Second); mu.Lock(); order += "s"; mu.Unlock(); done.Send(1) })
		start := Now()
		done.Recv()
		done.Recv()
		if Since(start) != 3*time.Second {
			return "clock " + Since(start).String()
		}
		return order
	})
	if len(out) != 1 || out["sf"] == 0 {
		t.Fatalf("outcomes %v", out)
	}
}

// A stopped timer never fires; a reset one fires again.
func TestTimerStopReset(t *testing.T) {
	_, out := explore(t, 1, func() string {
		tm := NewTimer(time.Second)
		if !tm.Stop() {
			return "stop reported an expired timer"
		}
		Advance(5 * time.Second)
		Quiesce()
		if tm.C.Len() != 0 {
			return "stopped timer fired"
		}
		tm.Reset(time.Second)
		tm.C.Recv()
		return "ok"
	})
	if len(out) != 1 || out["ok"] == 0 {
		t.Fatalf("outcomes %v", out)
	}
}
