package vsyncrt

import (
	"fmt"
	"time"
	"unsafe"
)

// Virtual timers.
//
// The instrumenter replaces time.NewTicker, time.NewTimer, time.After, time.AfterFunc, time.Tick and time.Sleep in
// the files it rewrites by the functions of this file. Every timer is an environment thread of the scheduler; its
// only operation is "fire", and that operation is enabled
//
//   - when the virtual clock has reached the timer's due time (a harness moves the clock with Advance), or
//   - when no program thread can run (time passes when everybody waits: discrete-event semantics).
//
// Firing moves the clock to the due time if it is still before it. Being an ordinary scheduling alternative, a due
// timer can fire at every scheduling point of every other thread, and whatever the fired timer wakes up interleaves
// with the rest like any other thread. A timer fires at most MaxFires times in one execution (the horizon that keeps
// executions with tickers finite); the bound is part of what a check reports.

// MaxFires bounds how often one timer (ticker) fires in one execution.
var MaxFires = 4

type timerCore struct {
	s       *Sched
	C       *Chan[time.Time]
	fn      func()
	period  time.Duration // > 0: ticker
	due     int64
	armed   bool
	fires   int
	tok     byte
	stopped bool
}

// Ticker replaces *time.Ticker.
type Ticker struct {
	C *Chan[time.Time]
	t *timerCore
	r *time.Ticker // outside a controlled execution
}

// Timer replaces *time.Timer.
type Timer struct {
	C *Chan[time.Time]
	t *timerCore
	r *time.Timer // outside a controlled execution
}

type timerOp struct{ t *timerCore }

// isDue reports whether the clock has reached the timer.
//
//go:norace
func (o *timerOp) isDue() bool {
	t := o.t
	return t.armed && t.fires < MaxFires && t.s.now >= t.due
}

//go:norace
func (o *timerOp) enabled() bool {
	t := o.t
	if !t.armed || t.fires >= MaxFires {
		return false
	}
	if t.s.now >= t.due {
		return true
	}
	// time passes only when no program thread can run
	for _, th := range t.s.threads {
		if th.done || th.pending == nil {
			continue
		}
		switch th.pending.(type) {
		case *timerOp:
			continue
		}
		if th.pending.enabled() {
			return false
		}
	}
	// of several timers that wait for the clock, the earliest fires first
	for _, th := range t.s.threads {
		if th.done || th.pending == nil {
			continue
		}
		if o2, ok := th.pending.(*timerOp); ok && o2.t != t && o2.t.armed && o2.t.fires < MaxFires && o2.t.due < t.due {
			return false
		}
	}
	return true
}

//go:norace
func (o *timerOp) name() string {
	if o.t.period > 0 {
		return fmt.Sprintf("ticker %p fires", o.t)
	}
	return fmt.Sprintf("timer %p fires", o.t)
}

//go:norace
func newCore(s *Sched, d, period time.Duration, fn func()) *timerCore {
	t := &timerCore{s: s, period: period, fn: fn, due: s.now + int64(d), armed: true}
	if fn == nil {
		t.C = MakeChan[time.Time](1)
	}
	raceReleaseMerge(unsafe.Pointer(&t.tok))
	th := s.newThread()
	th.pending = startOp
	go threadMain(s, th, func() { t.loop() })
	s.point(spawnOp)
	return t
}

//go:norace
func (t *timerCore) loop() {
	s := t.s
	op := &timerOp{t}
	for {
		s.point(op)
		if s.aborting {
			return
		}
		raceAcquire(unsafe.Pointer(&t.tok))
		if s.now < t.due {
			s.now = t.due
		}
		t.fires++
		if t.period > 0 {
			t.due += int64(t.period)
		} else {
			t.armed = false
		}
		if t.fn != nil {
			Go(t.fn)
			continue
		}
		// like the runtime: the tick is dropped when the previous one has not been taken
		if t.C.n < t.C.cap {
			t.C.Send(Now())
		}
	}
}

//go:norace
func (t *timerCore) stop() bool {
	was := t.armed
	t.armed = false
	t.stopped = true
	return was
}

//go:norace
func (t *timerCore) reset(d time.Duration) bool {
	was := t.armed
	t.due = t.s.now + int64(d)
	t.armed = true
	t.stopped = false
	raceReleaseMerge(unsafe.Pointer(&t.tok))
	return was
}

// realPump forwards a real timer channel into a shim channel (outside controlled executions only).
func realPump(c <-chan time.Time, out *Chan[time.Time]) {
	for v := range c {
		if out.Len() == 0 {
			out.Send(v)
		}
	}
}

// NewTicker replaces time.NewTicker.
//
//go:norace
func NewTicker(d time.Duration) *Ticker {
	if d <= 0 {
		panic("non-positive interval for NewTicker")
	}
	s := active
	if s == nil || s.aborting {
		r := time.NewTicker(d)
		k := &Ticker{C: MakeChan[time.Time](1), r: r}
		go realPump(r.C, k.C)
		return k
	}
	t := newCore(s, d, d, nil)
	return &Ticker{C: t.C, t: t}
}

// Stop replaces (*time.Ticker).Stop.
//
//go:norace
func (k *Ticker) Stop() {
	if k.t == nil {
		k.r.Stop()
		return
	}
	k.t.stop()
}

// Reset replaces (*time.Ticker).Reset.
//
//go:norace
func (k *Ticker) Reset(d time.Duration) {
	if k.t == nil {
		k.r.Reset(d)
		return
	}
	k.t.period = d
	k.t.reset(d)
}

// NewTimer replaces time.NewTimer.
//
//go:norace
func NewTimer(d time.Duration) *Timer {
	s := active
	if s == nil || s.aborting {
		r := time.NewTimer(d)
		k := &Timer{C: MakeChan[time.Time](1), r: r}
		go realPump(r.C, k.C)
		return k
	}
	t := newCore(s, d, 0, nil)
	return &Timer{C: t.C, t: t}
}

// AfterFunc replaces time.AfterFunc.
//
//go:norace
func AfterFunc(d time.Duration, f func()) *Timer {
	s := active
	if s == nil || s.aborting {
		return &Timer{r: time.AfterFunc(d, f)}
	}
	t := newCore(s, d, 0, f)
	return &Timer{t: t}
}

// Stop replaces (*time.Timer).Stop.
//
//go:norace
func (k *Timer) Stop() bool {
	if k.t == nil {
		return k.r.Stop()
	}
	return k.t.stop()
}

// Reset replaces (*time.Timer).Reset.
//
//go:norace
func (k *Timer) Reset(d time.Duration) bool {
	if k.t == nil {
		return k.r.Reset(d)
	}
	return k.t.reset(d)
}

// After replaces time.After.
//
//go:norace
func After(d time.Duration) *Chan[time.Time] { return NewTimer(d).C }

// Tick replaces time.Tick.
//
//go:norace
func Tick(d time.Duration) *Chan[time.Time] {
	if d <= 0 {
		return nil
	}
	return NewTicker(d).C
}

// Sleep replaces time.Sleep.
//
//go:norace
func Sleep(d time.Duration) {
	s := active
	if s == nil || s.aborting {
		time.Sleep(d)
		return
	}
	if d <= 0 {
		P()
		return
	}
	NewTimer(d).C.Recv()
}

// Since and Until replace time.Since / time.Until in files whose clock is virtual.
//
//go:norace
func Since(t time.Time) time.Duration { return Now().Sub(t) }

//go:norace
func Until(t time.Time) time.Duration { return t.Sub(Now()) }
