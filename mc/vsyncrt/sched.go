// Package vsyncrt is the controlled scheduler (engine E2) and the drop-in replacements for the
// synchronisation primitives the repository uses. mc/cmd/instrument rewrites a scratch copy of the
// repository so that "sync", go statements and (in the loader) channels resolve to this package.
//
// One goroutine ("thread") runs at a time. Every primitive operation is a scheduling point: the
// running thread publishes the operation it is about to perform and the scheduling decision is
// taken in-line (by the yielding thread itself): among the threads whose pending operation is
// enabled, in canonical order (the running thread first, then ascending ids), the choice comes
// from the replayed prefix or defaults to 0. Any choice other than 0 is a deviation; the
// explorer bounds deviations and enumerates every choice vector within the bound.
//
// Race oracle: the binary is built with -race. Everything here is //go:norace and every hand-off
// between threads is wrapped in RaceDisable/RaceEnable, so ThreadSanitizer sees no happens-before
// edge for a context switch; each primitive instead issues exactly the acquire/release edges the
// real primitive would. A race report therefore means: two accesses the PROGRAM'S OWN
// synchronisation leaves unordered in this schedule.
//
// No closures are used in this package (closures inside //go:norace functions are still
// instrumented).
package vsyncrt

import (
	"fmt"
	"time"
	"unsafe"
)

type op interface {
	enabled() bool
	name() string
}

type thread struct {
	id      int
	wake    chan struct{}
	pending op
	done    bool
	started bool
}

// Sched is one execution under control.
type Sched struct {
	threads  []*thread
	cur      *thread
	prefix   []int
	Trail    []int
	Arity    []int
	devs     int
	maxDev   int
	aborting bool
	finished bool
	fin      chan struct{}
	ack      chan struct{}
	steps    int
	maxSteps int
	tok      byte
	now      int64

	Deadlock  bool
	StepLimit bool
	Panic     string
	Blocked   []string // pending operations of the threads that were blocked at a deadlock
	OpLog     []string
	keepLog   bool
	Diverged  string
}

type abortSentinel struct{}

var active *Sched

// Active reports whether a controlled execution is running.
//
//go:norace
func Active() bool { return active != nil }

// Result of one execution.
type Result struct {
	Trail     []int
	Arity     []int
	Deadlock  bool
	StepLimit bool
	Panic     string
	Blocked   []string
	OpLog     []string
	Steps     int
	Threads   int
	Diverged  string
}

type mainBody struct{ fn func() }

// Run executes body as thread 0 under the scheduler, replaying prefix and then taking choice 0,
// with at most maxDev deviations (maxDev < 0: unbounded).
//
//go:norace
func Run(prefix []int, maxDev int, keepLog bool, body func()) Result {
	s := &Sched{prefix: prefix, maxDev: maxDev, fin: make(chan struct{}, 1), ack: make(chan struct{}, 64), maxSteps: 200000, keepLog: keepLog}
	active = s
	t0 := s.newThread()
	go threadMain(s, t0, body)
	s.cur = t0
	t0.started = true
	raceDisable()
	t0.wake <- struct{}{}
	<-s.fin
	raceEnable()
	// unwind every thread that is still parked
	s.aborting = true
	for _, t := range s.threads {
		if !t.done {
			raceDisable()
			t.wake <- struct{}{}
			<-s.ack
			raceEnable()
		}
	}
	active = nil
	raceAcquire(unsafe.Pointer(&s.tok))
	return Result{Trail: s.Trail, Arity: s.Arity, Deadlock: s.Deadlock, StepLimit: s.StepLimit, Panic: s.Panic, Blocked: s.Blocked, OpLog: s.OpLog, Steps: s.steps, Threads: len(s.threads), Diverged: s.Diverged}
}

//go:norace
func (s *Sched) newThread() *thread {
	t := &thread{id: len(s.threads), wake: make(chan struct{}, 1)}
	s.threads = append(s.threads, t)
	return t
}

//go:norace
func threadMain(s *Sched, t *thread, fn func()) {
	raceDisable()
	<-t.wake
	raceEnable()
	if s.aborting {
		t.done = true
		raceRelease(unsafe.Pointer(&s.tok))
		raceDisable()
		s.ack <- struct{}{}
		raceEnable()
		return
	}
	defer threadEnd(s, t)
	fn()
}

// threadEnd is the deferred end of every thread: normal exit, abort unwinding, or a panic in the program.
//
//go:norace
func threadEnd(s *Sched, t *thread) {
	r := recover()
	t.done = true
	raceRelease(unsafe.Pointer(&s.tok))
	if _, ok := r.(abortSentinel); ok || (r == nil && s.aborting) {
		raceDisable()
		s.ack <- struct{}{}
		raceEnable()
		return
	}
	if r != nil {
		if s.aborting {
			raceDisable()
			s.ack <- struct{}{}
			raceEnable()
			return
		}
		s.Panic = fmt.Sprintf("thread %d: %v", t.id, r)
		s.finish()
		return
	}
	// normal exit
	if t.id == 0 {
		s.finish()
		return
	}
	next := s.pick()
	if next == nil {
		s.noteDeadlock()
		s.finish()
		return
	}
	s.switchTo(next)
}

//go:norace
func (s *Sched) finish() {
	if s.finished {
		return
	}
	s.finished = true
	raceDisable()
	s.fin <- struct{}{}
	raceEnable()
}

//go:norace
func (s *Sched) noteDeadlock() {
	s.Deadlock = true
	for _, t := range s.threads {
		if !t.done && t.pending != nil {
			s.Blocked = append(s.Blocked, fmt.Sprintf("thread %d: %s", t.id, t.pending.name()))
		}
	}
}

//go:norace
func (s *Sched) switchTo(next *thread) {
	s.cur = next
	next.started = true
	raceDisable()
	next.wake <- struct{}{}
	raceEnable()
}

//go:norace
func (s *Sched) park(t *thread) {
	raceDisable()
	<-t.wake
	raceEnable()
}

// choose returns a value in [0,n): replayed, else 0; non-zero values are deviations.
//
//go:norace
func (s *Sched) choose(n int) int {
	if n <= 1 {
		return 0
	}
	if s.maxDev >= 0 && s.devs >= s.maxDev {
		n = 1
	}
	pos := len(s.Trail)
	v := 0
	if pos < len(s.prefix) {
		v = s.prefix[pos]
		if v >= n {
			if s.Diverged == "" {
				s.Diverged = fmt.Sprintf("replay diverged at point %d: choice %d of %d", pos, v, n)
			}
			v = 0
		}
	}
	if v != 0 {
		s.devs++
	}
	s.Trail = append(s.Trail, v)
	s.Arity = append(s.Arity, n)
	return v
}

// pick decides which thread runs next (nil: nobody can).
//
//go:norace
func (s *Sched) pick() *thread {
	var en [64]*thread
	n := 0
	if s.cur != nil && !s.cur.done && s.cur.pending != nil && s.cur.pending.enabled() {
		en[n] = s.cur
		n++
	}
	for _, t := range s.threads {
		if t == s.cur || t.done || t.pending == nil {
			continue
		}
		if t.pending.enabled() && n < len(en) {
			en[n] = t
			n++
		}
	}
	if n == 0 {
		return nil
	}
	return en[s.choose(n)]
}

// point is the scheduling point before an operation. It returns when the calling thread has been
// chosen to perform o (which is then enabled).
//
//go:norace
func (s *Sched) point(o op) {
	if s.aborting {
		return
	}
	t := s.cur
	t.pending = o
	s.steps++
	if s.keepLog {
		s.OpLog = append(s.OpLog, fmt.Sprintf("t%d %s", t.id, o.name()))
	}
	if s.steps > s.maxSteps {
		s.StepLimit = true
		s.finish()
		s.park(t)
		panic(abortSentinel{})
	}
	next := s.pick()
	if next == nil {
		s.noteDeadlock()
		s.finish()
		s.park(t)
		panic(abortSentinel{})
	}
	if next != t {
		s.switchTo(next)
		s.park(t)
		if s.aborting {
			panic(abortSentinel{})
		}
	}
	t.pending = nil
}

// ---- always-enabled operations ----

type plainOp struct{ what string }

//go:norace
func (o *plainOp) enabled() bool { return true }

//go:norace
func (o *plainOp) name() string { return o.what }

var yieldOp = &plainOp{"yield"}
var startOp = &plainOp{"start"}
var spawnOp = &plainOp{"go"}

// P is a statement-level scheduling point.
//
//go:norace
func P() {
	if s := active; s != nil {
		s.point(yieldOp)
	}
}

// Go starts fn as a new thread (a plain goroutine when no execution is active).
//
//go:norace
func Go(fn func()) {
	s := active
	if s == nil {
		go fn()
		return
	}
	if s.aborting {
		return
	}
	t := s.newThread()
	t.pending = startOp
	go threadMain(s, t, fn) // the real go statement: parent-to-child is a genuine happens-before edge
	s.point(spawnOp)
}

// Choose lets a harness thread take an environment decision (recorded like a scheduling choice).
//
//go:norace
func Choose(n int) int {
	s := active
	if s == nil || s.aborting {
		return 0
	}
	return s.choose(n)
}

// Now is the virtual clock: a fixed epoch plus what the harness advanced.
//
//go:norace
func Now() time.Time {
	s := active
	if s == nil {
		return time.Now()
	}
	return time.Unix(1_700_000_000, 0).Add(time.Duration(s.now))
}

// Advance moves the virtual clock.
//
//go:norace
func Advance(d time.Duration) {
	if s := active; s != nil {
		s.now += int64(d)
	}
}

// Aborting reports whether the current execution is being unwound.
//
//go:norace
func Aborting() bool { s := active; return s != nil && s.aborting }
