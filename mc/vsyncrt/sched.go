// Package vsyncrt is the controlled scheduler (engine E2) and the drop-in replacements for the
// synchronisation primitives the repository uses. mc/cmd/instrument rewrites a scratch copy of the
// repository so that "sync", go statements and (in the loader) channels resolve to this package.
//
// One goroutine ("thread") runs at a time. Every primitive operation is a scheduling point: the
// running thread publishes the operation it is about to perform and the scheduling decision is
// taken in-line (by the yielding thread itself): among the threads whose pending operation is
// enabled, in canonical order (the running thread first, then ascending ids), the choice comes
// from the replayed prefix or defaults to 0. Any choice other than 0 is a deviation; the
// explorer bounds deviations and enumerates every choice vector within the bound.
//
// Race oracle: the binary is built with -race. Everything here is //go:norace and every hand-off
// between threads is wrapped in RaceDisable/RaceEnable, so ThreadSanitizer sees no happens-before
// edge for a context switch; each primitive instead issues exactly the acquire/release edges the
// real primitive would. A race report therefore means: two accesses the PROGRAM'S OWN
// synchronisation leaves unordered in this schedule.
//
// No closures are used in this package (closures inside //go:norace functions are still
// instrumented).
package vsyncrt

import (
	"fmt"
	"time"
	"unsafe"
)

type op interface {
	enabled() bool
	name() string
}

type thread struct {
	id      int
	wake    chan struct{}
	pending op
	done    bool
	started bool
}

// Sched is one execution under control.
type Sched struct {
	tarr     [256]*thread
	threads  []*thread // tarr[:n]
	oarr     [256]*thread
	order    []*thread // oarr[:n]: priority order used when the running thread cannot continue
	cur      *thread
	prefix   []int
	Trail    []int
	Arity    []int
	devs     int
	maxDev   int
	aborting bool
	finished bool
	fin      chan struct{}
	ack      chan struct{}
	steps    int
	maxSteps int
	tok      byte
	now      int64

	Deadlock  bool
	StepLimit bool
	Panic     string
	Blocked   []string // pending operations of the threads that were blocked at a deadlock
	OpLog     []string
	keepLog   bool
	// locks taken during this execution: force-released at its end, so that a lock object that outlives the
	// execution (package-level) never starts the next one locked
	mtx      [512]*Mutex
	nmtx     int
	rwm      [512]*RWMutex
	nrwm     int
	Diverged string
}

type abortSentinel struct{}

var active *Sched

// Active reports whether a controlled execution is running.
//
//go:norace
func Active() bool { return active != nil }

// Result of one execution.
type Result struct {
	Trail     []int
	Arity     []int
	Deadlock  bool
	StepLimit bool
	Panic     string
	Blocked   []string
	OpLog     []string
	Steps     int
	Threads   int
	Diverged  string
}

type mainBody struct{ fn func() }

// Run executes body as thread 0 under the scheduler, replaying prefix and then taking choice 0,
// with at most maxDev deviations (maxDev < 0: unbounded).
//
//go:norace
func Run(prefix []int, maxDev int, keepLog bool, body func()) Result {
	// no slice of the scheduler ever grows through the runtime (growslice/slicecopy carry race hooks even when
	// called from //go:norace code): everything is preallocated and moved with plain loops
	s := &Sched{prefix: prefix, maxDev: maxDev, fin: make(chan struct{}, 1), ack: make(chan struct{}, 64), maxSteps: 60000, keepLog: keepLog}
	s.Trail = make([]int, 0, 1<<16)
	s.Arity = make([]int, 0, 1<<16)
	if keepLog {
		s.OpLog = make([]string, 0, 1<<16)
	}
	active = s
	t0 := s.newThread()
	go threadMain(s, t0, body)
	s.cur = t0
	t0.started = true
	raceDisable()
	t0.wake <- struct{}{}
	<-s.fin
	raceEnable()
	// unwind every thread that is still parked
	s.aborting = true
	for _, t := range s.threads {
		if !t.done {
			raceDisable()
			t.wake <- struct{}{}
			<-s.ack
			raceEnable()
		}
	}
	for i := 0; i < s.nmtx; i++ {
		s.mtx[i].locked = false
	}
	for i := 0; i < s.nrwm; i++ {
		s.rwm[i].writer, s.rwm[i].readers = false, 0
	}
	active = nil
	raceAcquire(unsafe.Pointer(&s.tok))
	return Result{Trail: s.Trail, Arity: s.Arity, Deadlock: s.Deadlock, StepLimit: s.StepLimit, Panic: s.Panic, Blocked: s.Blocked, OpLog: s.OpLog, Steps: s.steps, Threads: len(s.threads), Diverged: s.Diverged}
}

//go:norace
func (s *Sched) newThread() *thread {
	n := len(s.threads)
	if n >= len(s.tarr) {
		panic("vsyncrt: too many threads")
	}
	t := &thread{id: n, wake: make(chan struct{}, 1)}
	s.tarr[n] = t
	s.threads = s.tarr[:n+1]
	// a new thread gets the lowest priority: by default it is delayed as long as possible (which is what exposes a
	// parent that forgets to wait for it); one promotion runs it at once
	s.oarr[n] = t
	s.order = s.oarr[:n+1]
	return t
}

//go:norace
func threadMain(s *Sched, t *thread, fn func()) {
	raceDisable()
	<-t.wake
	raceEnable()
	if s.aborting {
		t.done = true
		raceReleaseMerge(unsafe.Pointer(&s.tok))
		raceDisable()
		s.ack <- struct{}{}
		raceEnable()
		return
	}
	defer threadEnd(s, t)
	fn()
}

// threadEnd is the deferred end of every thread: normal exit, abort unwinding, or a panic in the program.
//
//go:norace
func threadEnd(s *Sched, t *thread) {
	r := recover()
	t.done = true
	raceReleaseMerge(unsafe.Pointer(&s.tok))
	if _, ok := r.(abortSentinel); ok || (r == nil && s.aborting) {
		raceDisable()
		s.ack <- struct{}{}
		raceEnable()
		return
	}
	if r != nil {
		if s.aborting {
			raceDisable()
			s.ack <- struct{}{}
			raceEnable()
			return
		}
		s.Panic = fmt.Sprintf("thread %d: %v", t.id, r)
		s.finish()
		return
	}
	// normal exit
	if t.id == 0 {
		s.finish()
		return
	}
	next := s.pick()
	if next == nil {
		s.noteDeadlock()
		s.finish()
		return
	}
	s.switchTo(next)
}

//go:norace
func (s *Sched) finish() {
	if s.finished {
		return
	}
	s.finished = true
	raceDisable()
	s.fin <- struct{}{}
	raceEnable()
}

//go:norace
func (s *Sched) noteDeadlock() {
	s.Deadlock = true
	for _, t := range s.threads {
		if !t.done && t.pending != nil {
			s.Blocked = append(s.Blocked, fmt.Sprintf("thread %d: %s", t.id, t.pending.name()))
		}
	}
}

//go:norace
func (s *Sched) switchTo(next *thread) {
	s.cur = next
	next.started = true
	raceDisable()
	next.wake <- struct{}{}
	raceEnable()
}

//go:norace
func (s *Sched) park(t *thread) {
	raceDisable()
	<-t.wake
	raceEnable()
}

// choose returns a value in [0,n): replayed, else 0; non-zero values are deviations.
//
//go:norace
func (s *Sched) choose(n int) int {
	if n <= 1 {
		return 0
	}
	if s.maxDev >= 0 && s.devs >= s.maxDev {
		n = 1
	}
	pos := len(s.Trail)
	v := 0
	if pos < len(s.prefix) {
		v = s.prefix[pos]
		if v >= n {
			if s.Diverged == "" {
				s.Diverged = fmt.Sprintf("replay diverged at point %d: choice %d of %d", pos, v, n)
			}
			v = 0
		}
	}
	if v != 0 {
		s.devs++
	}
	if len(s.Trail) == cap(s.Trail) {
		s.StepLimit = true
		return 0
	}
	s.Trail = append(s.Trail, v)
	s.Arity = append(s.Arity, n)
	return v
}

// pick decides which thread runs next (nil: nobody can).
//
// Candidates are the running thread (if its operation is enabled) followed by the other enabled threads in
// priority order (s.order: creation order, demoted threads at the back).
// Choice 0 is the default: keep running, else the first enabled thread in priority order. A choice k in 1..n-1
// switches to candidate k and promotes it to the front of the priority order. When the running thread is
// enabled there is one more alternative, n: demote the running thread to the back of the priority order and
// run the next candidate - every other thread then gets to run before the demoted one resumes.
//
//go:norace
func (s *Sched) pick() *thread {
	var en [64]*thread
	n := 0
	curEnabled := s.cur != nil && !s.cur.done && s.cur.pending != nil && s.cur.pending.enabled()
	if curEnabled {
		en[n] = s.cur
		n++
	}
	for _, t := range s.order {
		if t == s.cur || t.done || t.pending == nil {
			continue
		}
		if t.pending.enabled() && n < len(en) {
			en[n] = t
			n++
		}
	}
	if n == 0 {
		return nil
	}
	alts := n
	if curEnabled && n >= 2 {
		alts = n + 1
	}
	k := s.choose(alts)
	if k == 0 {
		return en[0]
	}
	if k == n { // demotion
		s.moveTo(s.cur, len(s.order)-1)
		return en[1]
	}
	s.moveTo(en[k], 0)
	return en[k]
}

// moveTo places t at index pos of the priority order.
//
//go:norace
func (s *Sched) moveTo(t *thread, pos int) {
	n := len(s.order)
	idx := -1
	for i := 0; i < n; i++ {
		if s.oarr[i] == t {
			idx = i
		}
	}
	if idx < 0 {
		return
	}
	if pos >= n {
		pos = n - 1
	}
	if idx < pos {
		for i := idx; i < pos; i++ {
			s.oarr[i] = s.oarr[i+1]
		}
	} else {
		for i := idx; i > pos; i-- {
			s.oarr[i] = s.oarr[i-1]
		}
	}
	s.oarr[pos] = t
}

// point is the scheduling point before an operation. It returns when the calling thread has been
// chosen to perform o (which is then enabled).
//
//go:norace
func (s *Sched) point(o op) {
	if s.aborting {
		return
	}
	t := s.cur
	t.pending = o
	s.steps++
	if s.keepLog && len(s.OpLog) < cap(s.OpLog) {
		s.OpLog = append(s.OpLog, fmt.Sprintf("t%d %s", t.id, o.name()))
	}
	if s.steps > s.maxSteps {
		s.StepLimit = true
		s.finish()
		s.park(t)
		panic(abortSentinel{})
	}
	next := s.pick()
	if next == nil {
		s.noteDeadlock()
		s.finish()
		s.park(t)
		panic(abortSentinel{})
	}
	if next != t {
		s.switchTo(next)
		s.park(t)
		if s.aborting {
			panic(abortSentinel{})
		}
	}
	t.pending = nil
}

// ---- always-enabled operations ----

type plainOp struct{ what string }

//go:norace
func (o *plainOp) enabled() bool { return true }

//go:norace
func (o *plainOp) name() string { return o.what }

var yieldOp = &plainOp{"yield"}
var startOp = &plainOp{"start"}
var spawnOp = &plainOp{"go"}

// quiesceOp is enabled only when no other thread can run: the environment thread uses it to let the program
// digest one event completely before the next one.
type quiesceOp struct{ s *Sched }

//go:norace
func (o *quiesceOp) enabled() bool {
	for _, t := range o.s.threads {
		if t.done || t.pending == nil || t == o.s.cur && false {
			continue
		}
		if _, isQ := t.pending.(*quiesceOp); isQ {
			continue
		}
		// a timer that waits for the clock does not keep the program busy; one that is due does
		if tm, isT := t.pending.(*timerOp); isT {
			if tm.isDue() {
				return false
			}
			continue
		}
		if t.pending.enabled() {
			return false
		}
	}
	return true
}

//go:norace
func (o *quiesceOp) name() string { return "wait until every other thread is blocked" }

// Quiesce blocks the calling (harness) thread until no other thread can run.
//
//go:norace
func Quiesce() {
	if s := active; s != nil && !s.aborting {
		s.point(&quiesceOp{s})
	}
}

// P is a statement-level scheduling point.
//
//go:norace
func P() {
	if s := active; s != nil {
		s.point(yieldOp)
	}
}

// Go starts fn as a new thread (a plain goroutine when no execution is active).
//
//go:norace
func Go(fn func()) {
	s := active
	if s == nil {
		go fn()
		return
	}
	if s.aborting {
		return
	}
	t := s.newThread()
	t.pending = startOp
	go threadMain(s, t, fn) // the real go statement: parent-to-child is a genuine happens-before edge
	s.point(spawnOp)
}

// Choose lets a harness thread take an environment decision (recorded like a scheduling choice).
//
//go:norace
func Choose(n int) int {
	s := active
	if s == nil || s.aborting {
		return 0
	}
	return s.choose(n)
}

// Now is the virtual clock: a fixed epoch plus what the harness advanced.
//
//go:norace
func Now() time.Time {
	s := active
	if s == nil {
		return time.Now()
	}
	return time.Unix(1_700_000_000, 0).Add(time.Duration(s.now))
}

// Advance moves the virtual clock.
//
//go:norace
func Advance(d time.Duration) {
	if s := active; s != nil {
		s.now += int64(d)
	}
}

// Aborting reports whether the current execution is being unwound.
//
//go:norace
func Aborting() bool { s := active; return s != nil && s.aborting }
