package vsyncrt

import (
	"fmt"
	"unsafe"
)

// Chan replaces a Go channel in the instrumented loader files. Unbuffered channels are modelled as a
// one-slot rendezvous: the sender offers the value (enabled when the slot is free) and then waits
// until a receiver has taken it; a receiver is enabled when a value is offered (or buffered, or the
// channel is closed).
type Chan[T any] struct {
	ring   []T // fixed ring buffer of cap elements (never grown)
	head   int
	n      int
	cap    int
	closed bool
	// rendezvous slot for cap == 0
	offered bool
	slot    T
	taken   bool
	last    T
	lastOK  bool
	tok     byte
	// rwait counts threads parked in a receive (plain or as a select arm) on this channel: a select SEND arm on an
	// unbuffered channel is ready only when somebody is there to take the value
	rwait int
}

// MakeChan replaces make(chan T, n).
//
//go:norace
func MakeChan[T any](n ...int) *Chan[T] {
	c := &Chan[T]{}
	if len(n) > 0 {
		c.cap = n[0]
	}
	if c.cap > 0 {
		c.ring = make([]T, c.cap)
	}
	return c
}

//go:norace
func (c *Chan[T]) canSend() bool {
	if c == nil {
		return false
	}
	if c.closed {
		return true // will panic, like the real thing
	}
	if c.cap > 0 {
		return c.n < c.cap
	}
	return !c.offered
}

//go:norace
func (c *Chan[T]) canRecv() bool {
	if c == nil {
		return false
	}
	if c.cap > 0 {
		return c.n > 0 || c.closed
	}
	return (c.offered && !c.taken) || c.closed
}

type sendOp[T any] struct{ c *Chan[T] }

//go:norace
func (o *sendOp[T]) enabled() bool { return o.c.canSend() }

//go:norace
func (o *sendOp[T]) name() string { return fmt.Sprintf("chan send %p", o.c) }

type sendAckOp[T any] struct{ c *Chan[T] }

//go:norace
func (o *sendAckOp[T]) enabled() bool { return o.c.taken || o.c.closed }

//go:norace
func (o *sendAckOp[T]) name() string { return fmt.Sprintf("chan send (waiting for receiver) %p", o.c) }

type recvOp[T any] struct{ c *Chan[T] }

//go:norace
func (o *recvOp[T]) enabled() bool { return o.c.canRecv() }

//go:norace
func (o *recvOp[T]) name() string { return fmt.Sprintf("chan recv %p", o.c) }

// Send replaces c <- v.
//
//go:norace
func (c *Chan[T]) Send(v T) {
	s := active
	if s != nil && s.aborting {
		return
	}
	if s != nil {
		s.point(&sendOp[T]{c})
	} else if !c.canSend() {
		panic("vsyncrt: channel send would block outside a controlled execution")
	}
	if c.closed {
		panic("send on closed channel")
	}
	raceReleaseMerge(unsafe.Pointer(&c.tok))
	if c.cap > 0 {
		raceAcquire(unsafe.Pointer(&c.tok)) // over-approximates "k-th receive happens before (k+C)-th send completes"
		c.ring[(c.head+c.n)%c.cap] = v
		c.n++
		return
	}
	c.slot, c.offered, c.taken = v, true, false
	if s == nil {
		panic("vsyncrt: unbuffered channel send outside a controlled execution")
	}
	s.point(&sendAckOp[T]{c})
	// the receive happens before the send completes
	raceAcquire(unsafe.Pointer(&c.tok))
	if c.taken {
		c.offered, c.taken = false, false
		return
	}
	panic("send on closed channel")
}

//go:norace
func (c *Chan[T]) doRecv() (v T, ok bool) {
	raceAcquire(unsafe.Pointer(&c.tok))
	if c.cap > 0 {
		if c.n > 0 {
			v = c.ring[c.head]
			var zero T
			c.ring[c.head] = zero
			c.head = (c.head + 1) % c.cap
			c.n--
			raceReleaseMerge(unsafe.Pointer(&c.tok))
			return v, true
		}
		return v, false
	}
	if c.offered && !c.taken {
		v = c.slot
		var zero T
		c.slot = zero
		c.taken = true
		raceReleaseMerge(unsafe.Pointer(&c.tok))
		return v, true
	}
	return v, false
}

// Recv2 replaces v, ok := <-c.
//
//go:norace
func (c *Chan[T]) Recv2() (v T, ok bool) {
	s := active
	if s != nil && s.aborting {
		return v, false
	}
	if s != nil {
		c.rwait++
		s.point(&recvOp[T]{c})
		c.rwait--
	} else if !c.canRecv() {
		panic("vsyncrt: channel receive would block outside a controlled execution")
	}
	return c.doRecv()
}

// Recv replaces <-c.
//
//go:norace
func (c *Chan[T]) Recv() T {
	v, _ := c.Recv2()
	return v
}

// Close replaces close(c).
//
//go:norace
func (c *Chan[T]) Close() {
	s := active
	if s != nil && s.aborting {
		return
	}
	if s != nil {
		s.point(&plainOp{"chan close"})
	}
	if c.closed {
		panic("close of closed channel")
	}
	raceReleaseMerge(unsafe.Pointer(&c.tok))
	c.closed = true
}

// Len replaces len(c).
//
//go:norace
func (c *Chan[T]) Len() int { return c.n }

// ---- select ----

// Case is one arm of a select.
type Case interface {
	ready() bool
	fire()
}

type recvCase[T any] struct{ c *Chan[T] }

//go:norace
func (r *recvCase[T]) ready() bool { return r.c.canRecv() }

//go:norace
func (r *recvCase[T]) fire() { r.c.last, r.c.lastOK = r.c.doRecv() }

// RecvCase is the select arm "case v := <-c"; the received value is fetched with Taken.
//
//go:norace
func (c *Chan[T]) RecvCase() Case { return &recvCase[T]{c} }

// Taken returns the value received by the select arm that fired.
//
//go:norace
func (c *Chan[T]) Taken() T { return c.last }

// Taken2 returns value and ok of the select arm that fired.
//
//go:norace
func (c *Chan[T]) Taken2() (T, bool) { return c.last, c.lastOK }

type sendCase[T any] struct {
	c *Chan[T]
	v T
}

//go:norace
func (r *sendCase[T]) ready() bool {
	c := r.c
	if c == nil {
		return false
	}
	if c.closed {
		return true // fires and panics, like the real thing
	}
	if c.cap > 0 {
		return c.n < c.cap
	}
	return !c.offered && c.rwait > 0
}

//go:norace
func (r *sendCase[T]) fire() {
	c := r.c
	if c.closed {
		panic("send on closed channel")
	}
	raceReleaseMerge(unsafe.Pointer(&c.tok))
	if c.cap > 0 {
		raceAcquire(unsafe.Pointer(&c.tok))
		c.ring[(c.head+c.n)%c.cap] = r.v
		c.n++
		return
	}
	// rendezvous with a receiver that is already waiting: hand the value over and wait until it has been taken
	c.slot, c.offered, c.taken = r.v, true, false
	if s := active; s != nil {
		s.point(&sendAckOp[T]{c})
	}
	raceAcquire(unsafe.Pointer(&c.tok))
	if c.taken {
		c.offered, c.taken = false, false
		return
	}
	panic("send on closed channel")
}

// SendCase is the select arm "case c <- v".
//
//go:norace
func (c *Chan[T]) SendCase(v T) Case { return &sendCase[T]{c: c, v: v} }

// waiter is implemented by arms that park a receiver on a channel while the select waits.
type waiter interface{ park(delta int) }

//go:norace
func (r *recvCase[T]) park(delta int) {
	if r.c != nil {
		r.c.rwait += delta
	}
}

type doneCase struct{ ch <-chan struct{} }

//go:norace
func (d *doneCase) ready() bool {
	select {
	case <-d.ch:
		return true
	default:
		return false
	}
}

//go:norace
func (d *doneCase) fire() { <-d.ch }

// DoneCase is the select arm "case <-ctx.Done()" on a real channel that only ever gets closed.
//
//go:norace
func DoneCase(ch <-chan struct{}) Case { return &doneCase{ch} }

type selectOp struct {
	cases []Case
	def   bool
}

//go:norace
func (o *selectOp) enabled() bool {
	if o.def {
		return true
	}
	for _, c := range o.cases {
		if c.ready() {
			return true
		}
	}
	return false
}

//go:norace
func (o *selectOp) name() string { return fmt.Sprintf("select (%d cases)", len(o.cases)) }

// Select blocks until one arm is ready, fires it and returns its index (-1: default).
// When several arms are ready the choice is a scheduling decision.
//
//go:norace
func Select(hasDefault bool, cases ...Case) int {
	s := active
	if s != nil && s.aborting {
		panic(abortSentinel{})
	}
	o := &selectOp{cases: cases, def: hasDefault}
	if s != nil {
		for _, c := range cases {
			if w, ok := c.(waiter); ok {
				w.park(1)
			}
		}
		s.point(o)
		for _, c := range cases {
			if w, ok := c.(waiter); ok {
				w.park(-1)
			}
		}
	}
	var ready [16]int
	n := 0
	for i, c := range cases {
		if c.ready() && n < len(ready) {
			ready[n] = i
			n++
		}
	}
	if n == 0 {
		if hasDefault {
			return -1
		}
		panic("vsyncrt: select would block outside a controlled execution")
	}
	k := 0
	if s != nil {
		k = s.choose(n)
	}
	cases[ready[k]].fire()
	return ready[k]
}
