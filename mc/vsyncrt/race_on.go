//go:build race

package vsyncrt

import (
	"runtime"
	"unsafe"
)

// RaceEnabled reports whether the binary was built with -race.
const RaceEnabled = true

//go:norace
func raceDisable() { runtime.RaceDisable() }

//go:norace
func raceEnable() { runtime.RaceEnable() }

//go:norace
func raceAcquire(p unsafe.Pointer) { runtime.RaceAcquire(p) }

//go:norace
func raceRelease(p unsafe.Pointer) { runtime.RaceRelease(p) }

//go:norace
func raceReleaseMerge(p unsafe.Pointer) { runtime.RaceReleaseMerge(p) }
