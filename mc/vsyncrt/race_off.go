//go:build !race

package vsyncrt

import "unsafe"

// RaceEnabled reports whether the binary was built with -race.
const RaceEnabled = false

func raceDisable()                      {}
func raceEnable()                       {}
func raceAcquire(p unsafe.Pointer)      {}
func raceRelease(p unsafe.Pointer)      {}
func raceReleaseMerge(p unsafe.Pointer) {}
