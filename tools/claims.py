# executed by genmanifest.py: claim(id, engine, level, technique, text, note, design_ref)
claim("C01", "E1", "exploration",
      "bounded-exhaustive input enumeration against an independent RFC layout interpreter",
      "Every enum/flag combination at three length profiles and every boundary length/argument-shape combination at two enum profiles, for the header and all seven bodies, "
      "is encoded by the library and by a table-driven restatement of RFC 8907 and compared byte for byte, then the reference bytes are decoded by the library and compared field by field. "
      "Exhaustive inside the stated alphabet; symmetric layout mistakes cannot hide because the reference does not share code with the library.",
      "trusts mc/ref/layout.go as a faithful restatement of RFC 8907; factored product assumes layout positions independent of enum values", "3/C01")
claim("C02", "E1", "exploration",
      "bounded-exhaustive input enumeration (value-first and decode-first) with a round-trip / must-refuse oracle",
      "Every combination of text lengths on both sides of each wire width, argument counts/lengths on both sides of 255, invalid enum neighbours and non-ASCII bytes is encoded: "
      "accepted values must round-trip exactly, unrepresentable or invalid values must be refused with no bytes. Every byte string of the C04 generator that decodes must re-encode to bytes that decode to the same value.",
      "validation rules restated in the harness from the property's anchors; enumeration is exhaustive inside the listed boundary alphabet only", "3/C02")
claim("C03", "E1", "exploration",
      "bounded-exhaustive enumeration of (secret, session, version, seq, flags, length) on the real stream reader/writer against an independent MD5 pad",
      "The real server loop and the real Client.Send run over a scripted connection for every tuple of the alphabet; bytes on the wire are compared with cleartext XOR an independent RFC 8907 4.5 pad, "
      "cleartext received is compared with cleartext sent, header octets and length are compared raw. Covers every 16-byte block boundary up to the 65536 limit in the thorough tier.",
      "trusts crypto/md5 and mc/ref/pad.go; session ids and secrets outside the alphabet are covered only as far as the code is data-independent", "3/C03")
claim("C04", "E1", "exploration",
      "bounded-exhaustive malformed-input enumeration with panic, over-read (spare-capacity differential), validity and allocation oracles",
      "Every prefix, single-octet corruption and length/tail mismatch of a corpus of valid encodings, every short string over {0,1,ff} and every lying packet length is given to all nine decoders and Request.Fields; "
      "a panic, a result that depends on bytes beyond len(input), an accepted value that fails validation, a field not made of input bytes or an allocation above 16*len+16KiB is a violation.",
      "inputs outside the mutation alphabet are not explored; allocation measured via runtime.MemStats in an otherwise idle worker", "3/C04")
