# executed by genmanifest.py: claim(id, engine, level, technique, text, note, design_ref)
claim("C01", "E1", "exploration",
      "bounded-exhaustive input enumeration against an independent RFC layout interpreter",
      "Every enum/flag combination at three length profiles and every boundary length/argument-shape combination at two enum profiles, for the header and all seven bodies, "
      "is encoded by the library and by a table-driven restatement of RFC 8907 and compared byte for byte, then the reference bytes are decoded by the library and compared field by field. "
      "Exhaustive inside the stated alphabet; symmetric layout mistakes cannot hide because the reference does not share code with the library.",
      "trusts mc/ref/layout.go as a faithful restatement of RFC 8907; factored product assumes layout positions independent of enum values", "3/C01")
