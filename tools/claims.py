# executed by genmanifest.py: claim(id, engine, level, technique, text, note, design_ref)
claim("C01", "E1", "exploration",
      "bounded-exhaustive input enumeration against an independent RFC layout interpreter",
      "Every enum/flag combination at three length profiles and every boundary length/argument-shape combination at two enum profiles, for the header and all seven bodies, "
      "is encoded by the library and by a table-driven restatement of RFC 8907 and compared byte for byte, then the reference bytes are decoded by the library and compared field by field. "
      "Exhaustive inside the stated alphabet; symmetric layout mistakes cannot hide because the reference does not share code with the library.",
      "trusts mc/ref/layout.go as a faithful restatement of RFC 8907; factored product assumes layout positions independent of enum values", "3/C01")
claim("C02", "E1", "exploration",
      "bounded-exhaustive input enumeration (value-first and decode-first) with a round-trip / must-refuse oracle",
      "Every combination of text lengths on both sides of each wire width, argument counts/lengths on both sides of 255, invalid enum neighbours and non-ASCII bytes is encoded: "
      "accepted values must round-trip exactly, unrepresentable or invalid values must be refused with no bytes. Every byte string of the C04 generator that decodes must re-encode to bytes that decode to the same value.",
      "validation rules restated in the harness from the property's anchors; enumeration is exhaustive inside the listed boundary alphabet only", "3/C02")
claim("C03", "E1", "exploration",
      "bounded-exhaustive enumeration of (secret, session, version, seq, flags, length) on the real stream reader/writer against an independent MD5 pad",
      "The real server loop and the real Client.Send run over a scripted connection for every tuple of the alphabet; bytes on the wire are compared with cleartext XOR an independent RFC 8907 4.5 pad, "
      "cleartext received is compared with cleartext sent, header octets and length are compared raw. Covers every 16-byte block boundary up to the 65536 limit in the thorough tier.",
      "trusts crypto/md5 and mc/ref/pad.go; session ids and secrets outside the alphabet are covered only as far as the code is data-independent", "3/C03")
claim("C04", "E1", "exploration",
      "bounded-exhaustive malformed-input enumeration with panic, over-read (spare-capacity differential), validity and allocation oracles",
      "Every prefix, single-octet corruption and length/tail mismatch of a corpus of valid encodings, every short string over {0,1,ff} and every lying packet length is given to all nine decoders and Request.Fields; "
      "a panic, a result that depends on bytes beyond len(input), an accepted value that fails validation, a field not made of input bytes or an allocation above 16*len+16KiB is a violation.",
      "inputs outside the mutation alphabet are not explored; allocation measured via runtime.MemStats in an otherwise idle worker", "3/C04")
claim("C05", "E3", "model_checking",
      "exhaustive enumeration of stream segmentations (cut sets, EOF/timeout positions) on the real stream reader over a scripted connection",
      "Every cut set up to the stated size, both extreme segmentations and every EOF/timeout position of each stream is delivered chunk by chunk to the real server loop and to the real Client.Send; "
      "what the receiver hands on is compared with what was sent. Oversize announcements are checked for immediate refusal with no further read.",
      "streams longer than the listed ones and more simultaneous cuts than the bound are not explored; the scripted connection returns exactly one chunk per Read", "3/C05")
claim("C06", "E3", "model_checking",
      "exhaustive enumeration of request headers x reply kinds and of continuation chains on the real Serve loop, raw reply octets compared with a header model and reference pad",
      "For every flag octet x every odd sequence number, for every type/minor/session combination and for chains through registered continuations, the raw bytes the server writes are compared with the model's reply header and the reference obfuscation; request 255 must produce no bytes; handler-built packets with a lying length must go out with the true length.",
      "scripted handlers; the reference server's handlers are exercised under C07", "3/C06")
claim("C08", "E3", "model_checking",
      "explicit enumeration of all packet histories up to a depth on the real Serve loop in lock-step with a connection model",
      "All histories of (session, sequence number, handler action) up to depth 4 (quick) / 5 (thorough) are executed on fresh scripted connections; the invoked handler instance, the output and the open/closed state are compared with the reference connection model after every event. Additionally (engine E2) every script of 2-3 pipelined packets - on the wire before the server has answered anything - on a plain and on a single-connect connection runs under the controlled scheduler, all schedules with at most 1 (quick) / 2 (thorough) deviations: handler instances, their order and the replies must be what the model says when it judges the packets one after the other.",
      "two session ids, eight sequence values, histories deeper than the bound are not explored", "3/C08")
claim("C19", "E1", "exploration",
      "bounded-exhaustive enumeration of the bytes the server sees (and of key pairs) on the real read path, classified by an independent length-consistency evaluator",
      "Every combination of leading body octets over {0,1,2,255} with 0..3 trailing bytes for each packet type, 16-bit length pairs, 5x5 key pairs over a corpus of valid requests and the same bytes in the clear are delivered to the real server; "
      "bytes inconsistent under every layout must be answered by exactly one ERROR packet of the type and a close without any handler, exact requests and clear packets must be processed, anything else must be one of the two complete behaviours.",
      "octet values outside {0,1,2,255} in the first nine positions are covered only through the key-pair plane", "3/C19")
claim("C20", "E3+E2", "model_checking",
      "explicit enumeration of connection histories on the real Serve loop with gauge conservation checked at every idle point and after Serve returns; plus deviation-bounded schedule exploration of the instrumented code with a virtual clock that lets every armed timer fire after the teardown",
      "All histories up to the depth over opens, refused opens, packets on two sessions (accepted, even, replayed, continuation left open), key mismatch, oversize header and client close on up to two connections are run in a fresh world; "
      "the four in-flight gauges read from the default registry must never be below rest and must be back at rest after teardown. "
      "Under the controlled scheduler 32 small scripts (sessions that complete, sessions left waiting, a refused packet; plain and single-connect; clients close first or the server is cancelled first) run under every schedule with at most 1 (quick) / 2 (thorough) deviations, and an hour of virtual time passes after the teardown: same two oracles before and after the hour.",
      "histories deeper than the bound and more than two connections are not explored", "3/C20")
claim("C11", "E1", "exploration",
      "bounded-exhaustive enumeration of (policy, request) pairs on the real authorizer against an independent policy evaluator",
      "Every single rule, ordered rule pair and user/group layering over a 108-rule alphabet (11 regular-expression shapes incl. alternation, partial anchors, invalid), 3-4 rule policies over a reduced alphabet, and 1-3 services with match conditions, "
      "crossed with 240 command requests / 8 session requests x 2 scopes, are decided by the real stringy authorizer and by mc/ref/authz.go, each on a fresh authorizer and - for every ordered pair (triple) of 26 requests that type the same line with different cmd/argument splits - in sequence on ONE authorizer instance; any disagreement on grant/deny, returned values or add/replace marking is a violation.",
      "regular-expression shapes, argument lists and service shapes outside the alphabet are not explored; whole-string match is taken as ^(?:p)$", "3/C11")
claim("C12", "E1", "exploration",
      "bounded-exhaustive enumeration of accounting requests (flags, hostile field contents, argument counts, arrival orders) with a record-fidelity and ordering oracle",
      "Every flag octet, every 4-tuple of hostile content tokens in user/port/rem_addr/argument and every arrival order up to the depth through the full server: a SUCCESS reply requires exactly one sink call, before the reply's write, "
      "whose rendered line JSON-decodes to exactly the request; invalid, unknown-user and no-accounter requests (also as follow-ups on the session id of an acknowledged record) and every truncation / raised length octet of well-formed requests whose announced lengths exceed the body must be answered ERROR.",
      "content tokens are a fixed list of 13 hostile strings; the syslog accounter needs a syslog socket and is not exercised", "3/C12")
claim("C13", "E1", "exploration",
      "bounded-exhaustive enumeration of (configuration, address) pairs on the real loader lookup and the full server against a reference admission model",
      "All ordered selections of 1-3 of 5 overlapping scopes x 5 deny lists x 4 allow lists (one of each spells an IPv4 prefix in IPv4-mapped form), queried with every boundary address of every prefix in IPv4, IPv6 and IPv4-mapped form and a non-TCP address: the real Loader.Get must agree with the model on refuse/serve and on the bound key; "
      "through the full server a refused connection sees Close with no bytes and no handler, a served one is answered under the bound scope's key, users of other scopes do not exist, and a name configured in every scope with a different credential logs in with the bound scope's credential only; lookups for two addresses in flight at once (controlled scheduler) each get their own verdict.",
      "prefix shapes outside the five scopes and the listed filters are not explored", "3/C13")
claim("C07", "E3", "model_checking",
      "explicit enumeration of packet histories on the full reference server with a per-request accepted/rejected oracle from the connection-loop model",
      "All histories up to depth 3 (4 on a reduced alphabet in the thorough tier) over ~85 abstract packets covering every AAA path of the reference handlers, sequence-number abuses and rejected header forms, under working and failing keychains: "
      "each accepted request must cause exactly one handler invocation, one Reply call and one packet (none for 255); each rejected request no handler, at most one packet and a close.",
      "accept/reject from mc/ref/connmodel.go with the continuation registration observed; histories deeper than the bound, more than two session ids not explored", "3/C07")
claim("C10", "E3", "model_checking",
      "explicit enumeration of authentication histories on the full reference server against an independent credential oracle",
      "All histories up to depth 3 over ASCII/PAP logins of nine user shapes, CONTINUE packets carrying every user name and password, aborts, fillers and the type-confusable packet, on connections of both scopes, plus the full START product: "
      "a PASS must be justified by the credential condition evaluated independently (scope membership, authenticator resolution, bcrypt), every well-formed login that meets it must PASS, an aborted exchange ends in FAIL/ERROR and a session opened by anything but an ASCII login at minor version 0 or a PAP login at minor version 1 never sees PASS.",
      "bcrypt.CompareHashAndPassword is trusted; histories deeper than 3 and more than two session ids are not explored", "3/C10")
claim("C14", "E3", "model_checking",
      "exhaustive enumeration of (configuration, prefix history, hostile packet mutation) cases in crash-isolating worker subprocesses with write-ahead replay",
      "Every truncation, single-octet corruption, header corruption and lying length of 14 representative packets after state-reaching prefixes, ~100 packet kinds against every odd user/authenticator/accounter/policy shape under three keychain behaviours, and all short raw junk: "
      "the worker must survive and control connections opened before and after the hostile one must still be served.",
      "inputs outside the mutation alphabet and concurrent hostile clients are not explored; proxy framing only in the thorough tier", "3/C14")
claim("C18", "E3", "model_checking",
      "explicit enumeration of authentication histories with token passwords against a recording logger (information-flow oracle on every log call)",
      "Four configurations (scopes sharing a keychain entry, unassigned scope, unknown handler/provider types, duplicate user) are loaded and reloaded over each other with the loader's own log calls searched; the C10 histories and the full START product (first sequence number 1, 3, 255) are replayed with every password and shared secret replaced by a unique token; after every packet no watched token may occur in a formatted message, an unobscured record value, a field selected for retention, a logged reply, or the bytes written by the repository's own logger (cmds/server/log at debug level), to which every call is forwarded.",
      "substring search for tokens; the logger seam is the handlers' loggerProvider interface", "3/C18")
claim("C16", "E1", "exploration",
      "bounded-exhaustive enumeration of load histories on one loader object with a differential oracle (fresh loader) and snapshot immutability",
      "All sequences up to length 3 (4 thorough) over 15 YAML and 15 JSON documents that drop keys, shrink/reorder lists, remove options, change only what a group grants (same group name, members' entries untouched) or fail to load are fed to one loader; each published value must deep-equal a fresh loader's, earlier published values must stay equal to their snapshots, failed loads must publish nothing, and the full server must behave as the last good document says (admission of two addresses, nine command authorizations incl. commands only the group grants); one path rewritten up to 3 (4) times over {document, same-length twin, other document, unparsable text} x {modification time moves on, pinned} and reloaded with Load(path) must publish what a fresh loader publishes for the file as it is.",
      "documents outside the 15 shapes are not explored; the fsnotify watcher is represented by calling Unmarshal / Load(path) on the same object", "3/C16")
claim("C09", "E3", "model_checking",
      "exhaustive enumeration of packet interleavings of session scripts (one connection, and two connections sharing a session id) with a differential oracle",
      "Every order-preserving interleaving of every ordered pair of 12 session scripts (and of sets of triples) is executed on the real reference server, multiplexed on one connection and spread over two connections that reuse the same session id; "
      "each session's transcript of raw reply headers and decoded bodies must equal the transcript of the same script alone on a fresh server; four logins are also run with 70 (300) other sessions between their packets, sessions that complete and logins that are left waiting at their prompt. Additionally every pair of 7 scripts (two of them on a connection of the other scope) runs on two concurrent connection goroutines under the controlled scheduler (engine E2), all schedules with at most 1 (quick) / 2 (thorough) deviations.",
      "scripts are fixed packet lists; more than three simultaneous sessions are not explored", "3/C09")
claim("C15", "E2", "model_checking",
      "stateless deviation-bounded exploration of goroutine interleavings of the instrumented real code under a controlled scheduler, with a per-schedule happens-before race oracle (Go race detector blinded to the scheduler)",
      "Twenty-three harnesses (concurrent connections on shared policy data, two concurrent command authorizations of a user whose rules were merged from groups into a slice with spare capacity, accept loop with opening/closing/refused connections, lookups concurrent with reloads, a consumer of a published configuration concurrent with the next load, the loader's update loop polling the real file-loader object while the next document is loaded, multiplexed sessions, cancellation during serving, cancellation racing the next requests of an idle connection with a pending session, two concurrent logins of one user with different passwords, a multi-scope user whose rule slices have spare capacity, a reload introducing new command patterns during a command authorization, one key slice shared by every connection, a lookup held in the secret store across a reload, two clients using a wrong key, accounting through the default file sink - at /dev/full and at a scratch file - while the virtual clock ticks) run the real sync/goroutine/channel/timer code on a cooperative scheduler with a virtual clock; "
      "every schedule with at most 1 (quick) / 2 (thorough) deviations is executed under -race. A race report, a lookup that observes a mixture of two configurations, a published configuration that changes, a deadlock or a wrong reply is a violation.",
      "schedules with more deviations than the bound and code not reached by the harnesses are not covered; ThreadSanitizer treats the prometheus atomics as synchronisation, so statement-level points are inserted where handlers touch shared policy data (types.go TrimSpace, stringy evaluate, loader.updates)", "3/C15")
claim("C17", "E2", "model_checking",
      "exhaustive enumeration of environment scripts x deviation-bounded schedules of the real Serve loop under a controlled scheduler with scripted listener/connections and virtual time",
      "Every script of client connects, full packets, full packets followed in the same segment by the beginning of a packet that is never completed, partial packets, read-deadline expiries, cancellation and accept-deadline expiries up to the length bound (also against a server in proxy mode), clock-driven pacing scripts (one byte every ten seconds, never a complete packet), steady arrivals after the cancellation, a listener closed by the caller and connections from remotes the secret store refuses, followed by a fair closing phase, is run under every schedule within the deviation bound; "
      "the event log must show a finite future deadline armed before every read, timed-out connections closed and never touched again, a connection that has not delivered a complete packet by the deadline armed when the wait began closed, and Serve returning only after the listener is closed and every connection goroutine has finished (a state with no runnable thread is a deadlock).",
      "scripts longer than the bound, more than two connections and schedules with more deviations than the bound are not explored; real timers are replaced by a virtual clock", "3/C17")
