#!/usr/bin/env python3
"""Regenerates /verif/MANIFEST.json from the table below (single source of truth for what is claimed)."""
import json, os, subprocess

HERE = os.path.dirname(os.path.dirname(os.path.abspath(__file__)))

# id -> (engine, level, technique, text, note, design_ref)
CLAIMED = {}
NOT_YET = {}

def claim(pid, engine, level, technique, text, note, ref):
    CLAIMED[pid] = dict(engine=engine, level=level, technique=technique, text=text, note=note, ref=ref)

exec(open(os.path.join(HERE, "tools", "claims.py")).read())

all_ids = [json.loads(l)["id"] for l in open(os.path.join(HERE, "properties.jsonl"))]

def hook_commits():
    try:
        out = subprocess.check_output(["git", "-C", "/repo", "log", "--format=%H %s"], text=True)
        return [l.split()[0] for l in out.splitlines() if "verif hook" in l]
    except Exception:
        return []

checks = []
for pid in all_ids:
    if pid not in CLAIMED:
        continue
    c = CLAIMED[pid]
    checks.append({
        "property_id": pid,
        "quick_cmd": f"./run check {pid} quick",
        "thorough_cmd": f"./run check {pid} thorough",
        "evidence_file": f"/verif/evidence/{pid}.json",
        "replay_cmd_template": f"./run replay {pid} {{path}}",
        "engine": c["engine"],
        "level_claimed": {"category": c["level"], "text": c["text"], "design_ref": c["ref"]},
        "level_note": c["note"],
        "technique": c["technique"],
    })

manifest = {
    "version": 1,
    "setup_cmd": "./run setup",
    "hooks": {
        "guard": "verif",
        "enable": "go build -tags verif on a scratch copy of /repo's working tree (./run); the only committed hook is zz_verif_export.go "
                  "(//go:build verif, exports VerifNewClient); scheduler instrumentation (properties with a scheduler plane: C03 C08 C09 C12 C13 C15 C17 C20) is generated into the scratch copy "
                  "by mc/cmd/instrument at check time and never touches /repo",
        "baseline_off_cmd": "cd /repo && GOFLAGS=-mod=mod GOPROXY=off GOSUMDB=off go test -json -vet=off -count=1 -timeout 25m ./...",
        "source_commits": hook_commits(),
        "add_only": True,
    },
    "engines": [
        {"name": "E1", "path": "mc/enum", "serves_properties": [p for p in all_ids if CLAIMED.get(p, {}).get("engine") == "E1"],
         "kind_free_text": "bounded-exhaustive choice/input enumeration of the real code against independent reference models (mc/ref)"},
        {"name": "E3", "path": "mc/srvx", "serves_properties": [p for p in all_ids if CLAIMED.get(p, {}).get("engine") == "E3"],
         "kind_free_text": "explicit enumeration of connection event histories on the real Serve loop over a scripted listener/connection, lock-step with a model"},
        {"name": "E2", "path": "mc/vsyncrt", "serves_properties": [p for p in all_ids if CLAIMED.get(p, {}).get("engine") == "E2"],
         "kind_free_text": "stateless preemption-bounded exploration of goroutine interleavings of the instrumented real code under a controlled scheduler, with a per-schedule happens-before race oracle"},
    ],
    "checks": checks,
    "not_applicable": [{"property_id": p, "reason": NOT_YET.get(p, "check not built yet in this round; planned per DESIGN.md section 3")}
                       for p in all_ids if p not in CLAIMED],
    "notes": "All checks: ./run check <id> <quick|thorough>; exit 0 held / 1 VIOLATION / 2 broken. Known findings: known_findings.json.",
}
json.dump(manifest, open(os.path.join(HERE, "MANIFEST.json"), "w"), indent=1)
print("claimed:", sorted(CLAIMED), "not claimed:", [p for p in all_ids if p not in CLAIMED])
